//! C14 units: suppression comments (`ast-grep-ignore`).
//!
//! * `suppress_parse` : the private `parse_suppression_set` (hook) on exhaustive short and random texts
//! * `suppress_scan`  : the real `CombinedScan::scan` on generated sources of five languages; the
//!                      abstract input of the Lean model (comment nodes with their previous-sibling
//!                      lines, findings of an un-suppressed match of every rule on every node) is
//!                      extracted from the real tree and handed to the driver
//! * `suppress_cli`   : the same through the real CLI (`agv-sg scan --json=stream`, project mode)
//! * `c14_oracle`     : the property itself (reference written from the property text, working on the
//!                      generator's layout, not on the tree) against the implementation's output
use super::Ctx;
use crate::util::*;
use ast_grep_config::{from_yaml_string, CombinedScan, GlobalRules, RuleConfig, Severity};
use ast_grep_core::matcher::MatcherExt;
use ast_grep_core::{AstGrep, Language, StrDoc};
use ast_grep_language::SupportLang;
use serde_json::{json, Value};
use std::collections::{BTreeMap, HashMap};

const MARK: &str = "ast-grep-ignore";

// ---------------------------------------------------------------------------------------
// languages, statements, rules
// ---------------------------------------------------------------------------------------

pub struct LangSpec {
  lang: SupportLang,
  name: &'static str,
  ext: &'static str,
  line: Option<&'static str>,
  block: Option<(&'static str, &'static str)>,
  doc: Option<&'static str>,
  indent_ok: bool,
  stmts: &'static [&'static str],
  /// multi-line constructs (outside the property's quantifier; correspondence only)
  multi: &'static [&'static [&'static str]],
  /// (id, rule body, fix)
  rules: [(&'static str, &'static str, Option<&'static str>); 4],
}

const IDS: [&str; 4] = ["no-foo", "no_bar", "call", "N1"];

pub fn langs() -> Vec<LangSpec> {
  vec![
    LangSpec {
      lang: SupportLang::JavaScript,
      name: "JavaScript",
      ext: "js",
      line: Some("//"),
      block: Some(("/*", "*/")),
      doc: None,
      indent_ok: true,
      stmts: &["foo(1);", "bar(2);", "foo(bar(3));", "let x = 4;", "baz();", "foo(1); bar(2);", "x = foo(5) + bar(6);"],
      multi: &[&["if (x) {", "  foo(7);", "}"], &["function f() {", "  bar(8);", "}"], &["foo(", "  9", ");"]],
      rules: [
        ("no-foo", "pattern: 'foo($A)'", None),
        ("no_bar", "pattern: 'bar($A)'", Some("qux($A)")),
        ("call", "kind: call_expression", None),
        ("N1", "kind: number", Some("0")),
      ],
    },
    LangSpec {
      lang: SupportLang::Python,
      name: "Python",
      ext: "py",
      line: Some("#"),
      block: None,
      doc: None,
      indent_ok: false,
      stmts: &["foo(1)", "bar(2)", "foo(bar(3))", "x = 4", "baz()", "foo(1); bar(2)", "x = foo(5) + bar(6)"],
      multi: &[&["if x:", "    foo(7)"], &["foo(", "    9", ")"]],
      rules: [
        ("no-foo", "pattern: 'foo($A)'", None),
        ("no_bar", "pattern: 'bar($A)'", Some("qux($A)")),
        ("call", "kind: call", None),
        ("N1", "kind: integer", Some("0")),
      ],
    },
    LangSpec {
      lang: SupportLang::Rust,
      name: "Rust",
      ext: "rs",
      line: Some("//"),
      block: Some(("/*", "*/")),
      doc: Some("///"),
      indent_ok: true,
      stmts: &["foo(1);", "bar(2);", "foo(bar(3));", "let x = 4;", "baz();", "foo(1); bar(2);", "let y = foo(5) + bar(6);"],
      multi: &[&["if x {", "    foo(7);", "}"], &["fn f() {", "    bar(8);", "}"]],
      rules: [
        ("no-foo", "pattern: 'foo($A)'", None),
        ("no_bar", "pattern: 'bar($A)'", Some("qux($A)")),
        ("call", "kind: call_expression", None),
        ("N1", "kind: integer_literal", Some("0")),
      ],
    },
    LangSpec {
      lang: SupportLang::Lua,
      name: "Lua",
      ext: "lua",
      line: Some("--"),
      block: Some(("--[[", "]]")),
      doc: None,
      indent_ok: true,
      stmts: &["foo(1)", "bar(2)", "foo(bar(3))", "local x = 4", "baz()", "foo(1); bar(2)", "x = foo(5) + bar(6)"],
      multi: &[&["if x then", "  foo(7)", "end"]],
      rules: [
        ("no-foo", "pattern: 'foo($A)'", None),
        ("no_bar", "pattern: 'bar($A)'", Some("qux($A)")),
        ("call", "kind: function_call", None),
        ("N1", "kind: number", Some("0")),
      ],
    },
    LangSpec {
      lang: SupportLang::Css,
      name: "Css",
      ext: "css",
      line: None,
      block: Some(("/*", "*/")),
      doc: None,
      indent_ok: true,
      stmts: &["a { color: red; }", "b { margin: 0; }", "a { color: red; } b { margin: 0; }", "c { width: 1px; height: 2; }"],
      multi: &[&["d {", "  color: blue;", "}"]],
      rules: [
        ("no-foo", "kind: declaration", None),
        ("no_bar", "kind: rule_set", Some("z {}")),
        ("call", "kind: property_name", None),
        ("N1", "kind: integer_value", Some("0")),
      ],
    },
  ]
}

fn lang_by_name(name: &str) -> Option<LangSpec> {
  langs().into_iter().find(|l| l.name == name)
}

fn rule_yaml(l: &LangSpec, k: usize) -> String {
  let (id, body, fix) = l.rules[k];
  let mut y = format!("id: {id}\nlanguage: {}\nrule:\n  {body}\n", l.name);
  if let Some(f) = fix {
    y.push_str(&format!("fix: '{f}'\n"));
  }
  y
}

fn load_rules(l: &LangSpec, active: &[usize]) -> Vec<RuleConfig<SupportLang>> {
  let yaml: Vec<String> = active.iter().map(|&k| rule_yaml(l, k)).collect();
  from_yaml_string::<SupportLang>(&yaml.join("---\n"), &GlobalRules::default()).expect("C14 rules load")
}

// ---------------------------------------------------------------------------------------
// layouts
// ---------------------------------------------------------------------------------------

#[derive(Clone, Copy, PartialEq, Debug)]
enum Style {
  Line,
  Block,
  Doc,
}

#[derive(Clone, Debug)]
struct Cm {
  style: Style,
  dir: String,
}

#[derive(Clone, Debug, Default)]
struct Ln {
  indent: usize,
  /// a block comment BEFORE the statements of the line (outside the property's quantifier)
  lead: Option<Cm>,
  stmts: Vec<String>,
  /// comments after the statements (or alone on the line)
  cms: Vec<Cm>,
  /// a verbatim line of a multi-line construct (outside the property's quantifier)
  raw: Option<String>,
}

/// a comment as the generator placed it (the oracle's ground truth)
#[derive(Clone, Debug)]
struct Placed {
  line: usize,
  own_line: bool,
  start: usize,
  content: String,
  style: Style,
}

fn render_cm(l: &LangSpec, c: &Cm) -> String {
  match c.style {
    Style::Line => format!("{} {}", l.line.unwrap(), c.dir),
    Style::Doc => format!("{} {}", l.doc.unwrap(), c.dir),
    Style::Block => {
      let (a, b) = l.block.unwrap();
      format!("{a} {} {b}", c.dir)
    }
  }
}

fn render(l: &LangSpec, lines: &[Ln]) -> (String, Vec<Placed>) {
  let mut src = String::new();
  let mut placed = vec![];
  for (i, ln) in lines.iter().enumerate() {
    if let Some(raw) = &ln.raw {
      src.push_str(raw);
      src.push('\n');
      continue;
    }
    src.push_str(&" ".repeat(ln.indent));
    let mut first = true;
    let mut something_before = false;
    if let Some(c) = &ln.lead {
      placed.push(Placed { line: i, own_line: true, start: src.len(), content: c.dir.clone(), style: c.style });
      src.push_str(&render_cm(l, c));
      first = false;
      something_before = true;
    }
    for s in &ln.stmts {
      if !first {
        src.push(' ');
      }
      src.push_str(s);
      first = false;
      something_before = true;
    }
    for c in &ln.cms {
      if !first {
        src.push(' ');
      }
      placed.push(Placed { line: i, own_line: !something_before, start: src.len(), content: c.dir.clone(), style: c.style });
      src.push_str(&render_cm(l, c));
      first = false;
      something_before = true;
    }
    src.push('\n');
  }
  (src, placed)
}

/// directive texts: id lists with spaces / duplicates / unknown ids / none, no colon, …
fn directives(full: bool) -> Vec<String> {
  let (a, b, c, d) = (IDS[0], IDS[1], IDS[2], IDS[3]);
  let mut v = vec![
    MARK.to_string(),
    format!("{MARK}: {a}"),
    format!("{MARK}: {b}"),
    format!("{MARK}: {c}, {d}"),
    format!("{MARK}: unknown-rule"),
    format!("{MARK}:  {a} ,\t{b}  "),
  ];
  if full {
    v.extend([
      format!("{MARK}: {c}"),
      format!("{MARK}: {d}"),
      format!("{MARK}:{a},{b}"),
      format!("{MARK}: {a}, {a}"),
      format!("{MARK}: {a}, unknown-rule"),
      format!("{MARK}: {b},{c},{d}"),
      format!("{MARK}: {a},"),
      format!("{MARK}:"),
      format!("{MARK}: ,"),
      format!("{MARK} {a}"),
      format!("{MARK}-next-line"),
      "eslint-disable-next-line".to_string(),
      format!("note: {MARK}: {a}"),
      format!("{MARK} : {a}"),
      format!("{MARK}: {a} {b}"),
      "AST-GREP-IGNORE".to_string(),
      format!("{MARK}:\u{a0}{a}\u{3000}"),
      format!("{MARK}: {a}: {b}"),
      format!("{MARK} {MARK}: {a}"),
      format!("{MARK}: {c},\u{2003}{a}\u{2028}"),
    ]);
  }
  v
}

fn pick_style(l: &LangSpec, rng: &mut Rng, last_on_line: bool) -> Style {
  let mut opts = vec![];
  if last_on_line {
    if l.line.is_some() {
      opts.extend([Style::Line, Style::Line, Style::Line]);
    }
    if l.doc.is_some() {
      opts.push(Style::Doc);
    }
  }
  if l.block.is_some() {
    opts.push(Style::Block);
  }
  *rng.pick(&opts)
}

/// a random program of single-line statements with comments; `strict` = only the placements of
/// the property's quantifier (comment alone on its line, or one trailing comment)
fn random_program(l: &LangSpec, rng: &mut Rng, dirs: &[String], strict: bool) -> Vec<Ln> {
  let n = 2 + rng.below(7);
  let mut lines: Vec<Ln> = vec![];
  while lines.len() < n {
    let indent = if l.indent_ok && rng.chance(1, 4) { 2 * (1 + rng.below(2)) } else { 0 };
    let kind = rng.below(20);
    let mut ln = Ln { indent, ..Default::default() };
    let n_stmts = if rng.chance(1, 5) { 2 } else { 1 };
    let mk_stmts = |rng: &mut Rng| -> Vec<String> { (0..n_stmts).map(|_| rng.pick(l.stmts).to_string()).collect() };
    match kind {
      0 => {} // blank line
      1..=6 => ln.stmts = mk_stmts(rng),
      7..=11 => {
        // statement + trailing comment
        ln.stmts = mk_stmts(rng);
        ln.cms = vec![Cm { style: pick_style(l, rng, true), dir: rng.pick(dirs).clone() }];
      }
      12..=16 => {
        // comment alone on its line
        ln.cms = vec![Cm { style: pick_style(l, rng, true), dir: rng.pick(dirs).clone() }];
      }
      17 if !strict && l.block.is_some() => {
        // two comments after each other on one line (the first must be a block comment)
        if rng.chance(1, 2) {
          ln.stmts = mk_stmts(rng);
        }
        ln.cms = vec![
          Cm { style: Style::Block, dir: rng.pick(dirs).clone() },
          Cm { style: pick_style(l, rng, true), dir: rng.pick(dirs).clone() },
        ];
      }
      18 if !strict && l.block.is_some() => {
        // a block comment before the statements
        ln.lead = Some(Cm { style: Style::Block, dir: rng.pick(dirs).clone() });
        ln.stmts = mk_stmts(rng);
        if rng.chance(1, 3) {
          ln.cms = vec![Cm { style: pick_style(l, rng, true), dir: rng.pick(dirs).clone() }];
        }
      }
      19 if !strict => {
        // a multi-line construct, possibly with a trailing comment after its last line
        let m = rng.pick(l.multi);
        for (k, t) in m.iter().enumerate() {
          let mut t = t.to_string();
          if k + 1 == m.len() && rng.chance(2, 3) {
            let c = Cm { style: pick_style(l, rng, true), dir: rng.pick(dirs).clone() };
            t = format!("{t} {}", render_cm(l, &c));
          } else if k == 0 && l.lang != SupportLang::Python && rng.chance(1, 3) {
            let c = Cm { style: pick_style(l, rng, true), dir: rng.pick(dirs).clone() };
            t = format!("{t} {}", render_cm(l, &c));
          }
          lines.push(Ln { raw: Some(t), ..Default::default() });
        }
        continue;
      }
      _ => ln.stmts = mk_stmts(rng),
    }
    if l.lang == SupportLang::Python && ln.stmts.is_empty() {
      ln.indent = 0;
    }
    lines.push(ln);
  }
  lines
}

/// every placement of 0–3 comments in the neighbourhood of one statement line:
/// two own-line slots above, the trailing slot, one own-line slot below
fn systematic_programs(l: &LangSpec, dirs: &[String], variant: usize) -> Vec<Vec<Ln>> {
  let mut out = vec![];
  let n = dirs.len() + 1; // index n-1.. : `dirs.len()` = absent
  let style_own = |k: usize| -> Style {
    if l.line.is_none() {
      Style::Block
    } else if l.block.is_some() && k % 5 == 4 {
      Style::Block
    } else if l.doc.is_some() && k % 7 == 6 {
      Style::Doc
    } else {
      Style::Line
    }
  };
  let mut k = variant;
  for a2 in 0..n {
    for a1 in 0..n {
      for tr in 0..n {
        for be in 0..n {
          let cnt = [a2, a1, tr, be].iter().filter(|&&x| x < dirs.len()).count();
          if cnt > 3 {
            continue;
          }
          k += 1;
          let target = l.stmts[k % l.stmts.len()].to_string();
          let mut lines = vec![Ln { stmts: vec![l.stmts[(k / 3) % l.stmts.len()].to_string()], ..Default::default() }];
          let own = |d: usize, kk: usize| Ln { cms: vec![Cm { style: style_own(kk), dir: dirs[d].clone() }], ..Default::default() };
          if a2 < dirs.len() {
            lines.push(own(a2, k));
          }
          if a1 < dirs.len() {
            lines.push(own(a1, k + 1));
          }
          let mut t = Ln { stmts: vec![target], ..Default::default() };
          if tr < dirs.len() {
            t.cms = vec![Cm { style: style_own(k + 2), dir: dirs[tr].clone() }];
          }
          lines.push(t);
          if be < dirs.len() {
            lines.push(own(be, k + 3));
          }
          lines.push(Ln { stmts: vec![l.stmts[(k / 5) % l.stmts.len()].to_string()], ..Default::default() });
          out.push(lines);
        }
      }
    }
  }
  out
}

// ---------------------------------------------------------------------------------------
// abstract input extracted from the real tree
// ---------------------------------------------------------------------------------------

type Grep = AstGrep<StrDoc<SupportLang>>;

struct Abstract {
  nodes: Vec<Value>,
  /// node_id -> index in `nodes`
  node_idx: HashMap<usize, usize>,
  findings: Vec<Value>,
  /// (rule id, node_id) -> finding index
  finding_idx: HashMap<(String, usize), usize>,
  /// (rule id, byte start, byte end) -> finding indices (for the CLI)
  finding_by_range: HashMap<(String, usize, usize), Vec<usize>>,
  /// byte range -> node indices
  node_by_range: HashMap<(usize, usize), Vec<usize>>,
  /// how many suppression nodes satisfy / violate the hypothesis of `ownLine_agree`
  layout_ok: usize,
  layout_bad: usize,
}

fn is_blank(s: &str) -> bool {
  s.chars().all(|c| c.is_whitespace())
}

/// rules in the order of `CombinedScan::new`
fn scan_order<'a>(rules: &'a [RuleConfig<SupportLang>]) -> Vec<&'a RuleConfig<SupportLang>> {
  let mut v: Vec<&RuleConfig<SupportLang>> = rules.iter().collect();
  v.sort_by_key(|r| (r.fix.is_some(), r.id.clone()));
  v
}

fn extract(grep: &Grep, rules: &[RuleConfig<SupportLang>]) -> Abstract {
  let src = grep.source().to_string();
  let mut line_starts = vec![0usize];
  for (i, b) in src.bytes().enumerate() {
    if b == b'\n' {
      line_starts.push(i + 1);
    }
  }
  let order = scan_order(rules);
  let mut a = Abstract {
    nodes: vec![],
    node_idx: HashMap::new(),
    findings: vec![],
    finding_idx: HashMap::new(),
    finding_by_range: HashMap::new(),
    node_by_range: HashMap::new(),
    layout_ok: 0,
    layout_bad: 0,
  };
  for node in grep.root().dfs() {
    let kind = node.kind().to_string();
    let text = node.text().to_string();
    let k_half = kind.contains("comment");
    let t_half = text.contains(MARK);
    if k_half || t_half {
      let sl = node.start_pos().line();
      let el = node.end_pos().line();
      let prev = node.prev().map(|p| (p.start_pos().line(), p.end_pos().line()));
      let lead = src[line_starts[sl]..node.range().start].to_string();
      if k_half && t_half {
        // hypothesis of `ownLine_agree` (SingleLineLayout), evaluated on the real tree
        let ok = match prev {
          None => is_blank(&lead),
          Some((ps, pe)) => ps == pe && (!is_blank(&lead)) == (pe == sl),
        };
        if ok {
          a.layout_ok += 1;
        } else {
          a.layout_bad += 1;
        }
      }
      a.node_idx.insert(node.node_id(), a.nodes.len());
      a.node_by_range.entry((node.range().start, node.range().end)).or_default().push(a.nodes.len());
      a.nodes.push(json!({"k": kind, "t": text, "sl": sl, "el": el,
        "p": prev.map(|(s, e)| json!([s, e])).unwrap_or(Value::Null), "ld": lead}));
    }
    for r in &order {
      if r.matcher.match_node(node.clone()).is_some() {
        let idx = a.findings.len();
        a.finding_idx.insert((r.id.clone(), node.node_id()), idx);
        a.finding_by_range.entry((r.id.clone(), node.range().start, node.range().end)).or_default().push(idx);
        a.findings.push(json!({"r": r.id, "l": node.start_pos().line(), "x": r.fix.is_some()}));
      }
    }
  }
  a
}

fn sorted(mut v: Vec<usize>) -> Vec<usize> {
  v.sort();
  v
}

/// the real `CombinedScan::scan`, its result mapped to indices of the abstract input
fn real_scan(grep: &Grep, rules: &[RuleConfig<SupportLang>], a: &Abstract, sf: bool, ur: bool) -> Value {
  guard(|| {
    let unused = CombinedScan::unused_config(Severity::Hint, *grep.lang());
    let mut scan = CombinedScan::new(rules.iter().collect());
    if ur {
      scan.set_unused_suppression_rule(&unused);
    }
    let res = scan.scan(grep, sf);
    let (mut m, mut d, mut um, mut ud) = (vec![], vec![], vec![], vec![]);
    let mut order_ok = true;
    let mut unknown = 0usize;
    for (rule, nms) in &res.matches {
      let mut last: Option<usize> = None;
      for nm in nms {
        if std::ptr::eq(*rule, &unused) {
          match a.node_idx.get(&nm.node_id()) {
            Some(&i) => um.push(i),
            None => unknown += 1,
          }
        } else {
          match a.finding_idx.get(&(rule.id.clone(), nm.node_id())) {
            Some(&i) => {
              if last.map_or(false, |p| p >= i) {
                order_ok = false;
              }
              last = Some(i);
              m.push(i)
            }
            None => unknown += 1,
          }
        }
      }
    }
    for (rule, nm) in &res.diffs {
      if std::ptr::eq(*rule, &unused) {
        match a.node_idx.get(&nm.node_id()) {
          Some(&i) => ud.push(i),
          None => unknown += 1,
        }
      } else {
        match a.finding_idx.get(&(rule.id.clone(), nm.node_id())) {
          Some(&i) => d.push(i),
          None => unknown += 1,
        }
      }
    }
    if unknown > 0 || !order_ok {
      return json!({"unmapped": unknown, "order_ok": order_ok});
    }
    json!({"m": sorted(m), "d": sorted(d), "um": sorted(um), "ud": sorted(ud)})
  })
}

/// does the code under test keep one suppression per line (as is) or all of them (FIX_C14)?
/// Decided by replaying the H11 witness; selects which Lean model the ops are compared with.
pub fn code_is_fixed() -> bool {
  let l = lang_by_name("JavaScript").unwrap();
  let rules = load_rules(&l, &[0, 1, 2, 3]);
  let grep = l.lang.ast_grep("// ast-grep-ignore: no-foo\nfoo(1); // ast-grep-ignore: N1\n");
  let scan = CombinedScan::new(rules.iter().collect());
  let res = scan.scan(&grep, false);
  !res.matches.iter().any(|(r, _)| r.id == "no-foo")
}

fn scan_op_name() -> &'static str {
  if code_is_fixed() {
    "suppress_scan_fixed"
  } else {
    "suppress_scan"
  }
}

fn cli_op_name() -> &'static str {
  if code_is_fixed() {
    "suppress_cli_fixed"
  } else {
    "suppress_cli"
  }
}

fn emit_scan(o: &mut Out, opname: &str, l: &LangSpec, active: &[usize], rules: &[RuleConfig<SupportLang>], src: &str, sf: bool, ur: bool, stats: &mut Stats) {
  let grep = l.lang.ast_grep(src);
  let a = extract(&grep, rules);
  let r = real_scan(&grep, rules, &a, sf, ur);
  stats.add(&a, &r);
  o.op(
    opname,
    json!({"lang": l.name, "src": src, "rules": active, "nodes": a.nodes, "f": a.findings, "sf": sf, "ur": ur}),
    r,
  );
}

#[derive(Default)]
struct Stats {
  cases: usize,
  layout_ok: usize,
  layout_bad: usize,
  with_suppressed: usize,
  with_unused: usize,
  findings: usize,
  nodes: usize,
}
impl Stats {
  fn add(&mut self, a: &Abstract, r: &Value) {
    self.cases += 1;
    self.layout_ok += a.layout_ok;
    self.layout_bad += a.layout_bad;
    self.findings += a.findings.len();
    self.nodes += a.nodes.len();
    let rep = r["m"].as_array().map_or(0, |x| x.len()) + r["d"].as_array().map_or(0, |x| x.len());
    if rep < a.findings.len() {
      self.with_suppressed += 1;
    }
    if r["um"].as_array().map_or(0, |x| x.len()) + r["ud"].as_array().map_or(0, |x| x.len()) > 0 {
      self.with_unused += 1;
    }
  }
  fn json(&self) -> Value {
    json!({"cases": self.cases, "suppression_nodes_layout_ok": self.layout_ok, "suppression_nodes_layout_outside_hypothesis": self.layout_bad,
      "cases_with_suppressed_finding": self.with_suppressed, "cases_with_unused": self.with_unused, "findings": self.findings, "nodes": self.nodes})
  }
}

fn subsets() -> Vec<Vec<usize>> {
  let mut v = vec![];
  for mask in 1..16usize {
    v.push((0..4).filter(|k| mask & (1 << k) != 0).collect());
  }
  v
}

// ---------------------------------------------------------------------------------------
// units
// ---------------------------------------------------------------------------------------

fn parse_result(t: &str) -> Value {
  guard(|| match CombinedScan::<SupportLang>::verif_parse_suppression_set(t) {
    None => Value::Null,
    Some(v) => json!(v),
  })
}

pub fn suppress_parse(ctx: &Ctx, rng: &mut Rng, o: &mut Out) {
  // exhaustive short tails after the marker over the alphabet that matters
  let alphabet = ['a', 'b', ':', ',', ' ', '\t', '\u{a0}'];
  let max_len = if ctx.thorough { 6 } else { 5 };
  for tail in all_strings(&alphabet, max_len) {
    let t = format!("//{MARK}{tail}");
    o.op("suppress_parse", json!({"t": t}), parse_result(&t));
  }
  // every directive of the generator in every comment syntax
  for l in langs() {
    for d in directives(true) {
      for style in [Style::Line, Style::Block, Style::Doc] {
        let ok = match style {
          Style::Line => l.line.is_some(),
          Style::Block => l.block.is_some(),
          Style::Doc => l.doc.is_some(),
        };
        if ok {
          let t = render_cm(&l, &Cm { style, dir: d.clone() });
          o.op("suppress_parse", json!({"t": t}), parse_result(&t));
        }
      }
    }
  }
  // random texts: marker fragments, separators, Unicode white space, multi-byte text
  let pieces = [
    MARK, "ast-grep", "-ignore", "ignore", ":", ",", " ", "  ", "\t", "\n", "\r", "\u{b}", "\u{c}", "\u{85}", "\u{a0}", "\u{1680}",
    "\u{2000}", "\u{200a}", "\u{200b}", "\u{2028}", "\u{2029}", "\u{202f}", "\u{205f}", "\u{3000}", "\u{feff}", "a", "no-foo",
    "N1", "é", "中", "𝒳", "//", "/*", "*/", "#", "-->", "\u{c2}", "\u{e2}",
  ];
  let n = if ctx.thorough { 200_000 } else { 20_000 };
  for _ in 0..n {
    let cnt = rng.below(10);
    let mut t = String::new();
    let at = rng.below(cnt + 1);
    for k in 0..cnt {
      if k == at && rng.chance(4, 5) {
        t.push_str(MARK);
      }
      t.push_str(*rng.pick(&pieces[..]));
    }
    o.op("suppress_parse", json!({"t": t}), parse_result(&t));
  }
}

pub fn suppress_scan(ctx: &Ctx, rng: &mut Rng, o: &mut Out) {
  let opname = scan_op_name();
  let mut stats = Stats::default();
  let subs = subsets();
  let all = directives(true);
  let small = directives(false);
  for (li, l) in langs().iter().enumerate() {
    // rule sets are compiled once
    let compiled: Vec<Vec<RuleConfig<SupportLang>>> = subs.iter().map(|s| load_rules(l, s)).collect();
    // systematic neighbourhoods (small directive pool), rule set and flags rotate
    let reps = if ctx.thorough { 6 } else { 1 };
    for rep in 0..reps {
      for (k, prog) in systematic_programs(l, &small, rep * 3 + li).iter().enumerate() {
        let si = (k * 7 + rep + li) % subs.len();
        let (src, _) = render(l, prog);
        let sf = (k / 2) % 4 == 3;
        let ur = k % 8 != 7;
        emit_scan(o, opname, l, &subs[si], &compiled[si], &src, sf, ur, &mut stats);
      }
    }
    // random programs (all directives, all placements incl. those outside the quantifier)
    let n = if ctx.thorough { 12_000 } else { 600 };
    for _ in 0..n {
      let prog = random_program(l, rng, &all, false);
      let (src, _) = render(l, &prog);
      let si = rng.below(subs.len());
      let sf = rng.chance(1, 4);
      let ur = !rng.chance(1, 8);
      emit_scan(o, opname, l, &subs[si], &compiled[si], &src, sf, ur, &mut stats);
    }
  }
  eprintln!("suppress_scan[{opname}]: {}", stats.json());
  // how many suppression nodes of the real trees satisfy the hypothesis of `ownLine_agree`
  o.oracle(
    "suppress-layout-hypothesis",
    true,
    json!({"cases": stats.layout_ok, "outside_hypothesis": stats.layout_bad, "variant": opname, "stats": stats.json()}),
  );
}

/// the path of the real CLI built next to this binary
fn agv_sg() -> std::path::PathBuf {
  let mut p = std::env::current_exe().expect("current exe");
  p.pop();
  p.push("agv-sg");
  p
}

/// one CLI run (project mode, all rules of the project) over many files; returns per file the records
/// `(rule id, byte start, byte end)`, or an outcome string (`hang`, `exit:<n>`)
fn run_cli(dir: &std::path::Path, timeout_s: u64, flags: &[String]) -> Result<HashMap<String, Vec<(String, usize, usize)>>, String> {
  let out = std::process::Command::new("timeout")
    .arg(timeout_s.to_string())
    .arg(agv_sg())
    .arg("scan")
    .arg("--json=stream")
    .args(flags)
    .current_dir(dir)
    .output()
    .map_err(|e| format!("spawn:{e}"))?;
  match out.status.code() {
    Some(0) => {}
    // findings of severity error (a rule promoted with `--error=ID`) make the scan exit with 1
    Some(1) if flags.iter().any(|f| f.starts_with("--error")) => {}
    Some(124) => return Err("hang".into()),
    Some(c) => return Err(format!("exit:{c}")),
    None => return Err("signal".into()),
  }
  let mut per_file: HashMap<String, Vec<(String, usize, usize)>> = HashMap::new();
  for line in String::from_utf8_lossy(&out.stdout).lines() {
    let Ok(v) = serde_json::from_str::<Value>(line) else {
      return Err("bad-json".into());
    };
    let file = v["file"].as_str().unwrap_or("").trim_start_matches("./").to_string();
    let rid = v["ruleId"].as_str().unwrap_or("").to_string();
    let s = v["range"]["byteOffset"]["start"].as_u64().unwrap_or(0) as usize;
    let e = v["range"]["byteOffset"]["end"].as_u64().unwrap_or(0) as usize;
    per_file.entry(file).or_default().push((rid, s, e));
  }
  Ok(per_file)
}

fn cli_project(l_all: &[LangSpec], active: &[usize], files: &[(String, String)]) -> tempfile::TempDir {
  let dir = tempfile::tempdir().expect("tempdir");
  std::fs::write(dir.path().join("sgconfig.yml"), "ruleDirs: [rules]\n").unwrap();
  std::fs::create_dir(dir.path().join("rules")).unwrap();
  for l in l_all {
    for &k in active {
      std::fs::write(dir.path().join("rules").join(format!("{}-{}.yml", l.ext, k)), rule_yaml(l, k)).unwrap();
    }
  }
  for (name, src) in files {
    std::fs::write(dir.path().join(name), src).unwrap();
  }
  dir
}

/// map the CLI's records of one file to indices of the abstract input
fn cli_result(a: &Abstract, recs: &[(String, usize, usize)]) -> Value {
  let mut by_range = a.finding_by_range.clone();
  let mut nodes = a.node_by_range.clone();
  let (mut m, mut um) = (vec![], vec![]);
  let mut unmapped = 0;
  for (rid, s, e) in recs {
    if rid == "unused-suppression" {
      // the suppression node with this range (kind contains "comment" and text contains the marker)
      match nodes.get_mut(&(*s, *e)).and_then(|v| {
        let pos = v.iter().position(|&i| {
          a.nodes[i]["k"].as_str().unwrap().contains("comment") && a.nodes[i]["t"].as_str().unwrap().contains(MARK)
        })?;
        Some(v.remove(pos))
      }) {
        Some(i) => um.push(i),
        None => unmapped += 1,
      }
    } else {
      match by_range.get_mut(&(rid.clone(), *s, *e)).and_then(|v| if v.is_empty() { None } else { Some(v.remove(0)) }) {
        Some(i) => m.push(i),
        None => unmapped += 1,
      }
    }
  }
  if unmapped > 0 {
    return json!({"unmapped": unmapped});
  }
  json!({"m": sorted(m), "um": sorted(um)})
}

/// "A suppression is reported as unused exactly when it silenced nothing" — also in documents no rule
/// applies to: a file whose language has rules that an `ignores:` glob excludes for its path, the
/// style and the markup of an HTML page in a project with JavaScript / TypeScript rules only.
fn unused_where_no_rule_applies(o: &mut Out) {
  let dir = tempfile::tempdir().expect("tempdir");
  let w = |rel: &str, text: &str| {
    let p = dir.path().join(rel);
    std::fs::create_dir_all(p.parent().unwrap()).unwrap();
    std::fs::write(p, text).unwrap();
  };
  w("sgconfig.yml", "ruleDirs: [rules]\n");
  w("rules/a.yml", "id: no-foo\nlanguage: TypeScript\nseverity: warning\nignores: ['vendor/**']\nrule: {pattern: foo($A)}\n");
  w("rules/b.yml", "id: js-foo\nlanguage: JavaScript\nseverity: warning\nrule: {pattern: foo($A)}\n");
  w("vendor/lib.ts", "foo(3) // ast-grep-ignore: no-foo\n");
  w("src/used.ts", "foo(1) // ast-grep-ignore: no-foo\n");
  w("src/unused.ts", "// ast-grep-ignore: no-foo\nbar(2)\n");
  w("src/page.html", "<script>\n// ast-grep-ignore\nbar(1)\n</script>\n<style>\n/* ast-grep-ignore */\na { color: red }\n</style>\n<!-- ast-grep-ignore -->\n<p>x</p>\n");
  let out = std::process::Command::new("timeout").arg("60").arg(agv_sg()).arg("scan").arg("--json=stream").current_dir(dir.path()).output();
  let mut got: Vec<(String, String, u64)> = vec![];
  let mut status = "spawn".to_string();
  if let Ok(out) = out {
    status = format!("{:?}", out.status.code());
    for line in String::from_utf8_lossy(&out.stdout).lines() {
      if let Ok(v) = serde_json::from_str::<Value>(line) {
        got.push((v["file"].as_str().unwrap_or("").trim_start_matches("./").to_string(), v["ruleId"].as_str().unwrap_or("").to_string(), v["range"]["start"]["line"].as_u64().unwrap_or(999)));
      }
    }
  }
  got.sort();
  let mut want: Vec<(String, String, u64)> = [("src/page.html", 1), ("src/page.html", 5), ("src/page.html", 8), ("src/unused.ts", 0), ("vendor/lib.ts", 0)]
    .iter()
    .map(|(f, l)| (f.to_string(), "unused-suppression".to_string(), *l as u64))
    .collect();
  want.sort();
  if got != want {
    o.oracle("c14_unused_everywhere", false, json!({"fp": "unused suppressions in documents no rule applies to (ignored path / embedded language without rules)", "status": status, "reported": got, "expected": want}));
  }
  o.oracle("c14_unused_everywhere", true, json!({"cases": 1}));
}

pub fn suppress_cli(ctx: &Ctx, rng: &mut Rng, o: &mut Out) {
  unused_where_no_rule_applies(o);
  let opname = cli_op_name();
  let ls = langs();
  let all = directives(true);
  let small = directives(false);
  let per_lang = if ctx.thorough { 1500 } else { 120 };
  // two projects: all four rules; a two-rule subset
  for active in [vec![0usize, 1, 2, 3], vec![0, 3]] {
    let mut files: Vec<(String, String)> = vec![];
    let mut meta: Vec<(usize, String)> = vec![]; // (lang index, src)
    for (li, l) in ls.iter().enumerate() {
      let sys = systematic_programs(l, &small, li + 11);
      for k in 0..per_lang {
        let prog = if k % 3 == 0 { sys[rng.below(sys.len())].clone() } else { random_program(l, rng, &all, false) };
        let (src, _) = render(l, &prog);
        files.push((format!("c{:05}.{}", files.len(), l.ext), src.clone()));
        meta.push((li, src));
      }
    }
    // the H11 witness goes through the CLI on every run
    files.push(("witness.js".to_string(), "// ast-grep-ignore: no-foo\nfoo(1); // ast-grep-ignore: N1\n".to_string()));
    meta.push((0, files.last().unwrap().1.clone()));
    let dir = cli_project(&ls, &active, &files);
    // the two-rule project is scanned the way a CI job does it: single rules promoted / demoted by id
    // (`--error=ID --hint=ID`); that changes the severity of their findings and nothing else — every
    // rule of the project still runs, unused suppressions are still reported
    let flags: Vec<String> = if active.len() == 2 {
      vec![format!("--error={}", ls[0].rules[active[0]].0), format!("--hint={}", ls[0].rules[active[1]].0)]
    } else {
      vec![]
    };
    let res = run_cli(dir.path(), if ctx.thorough { 600 } else { 120 }, &flags);
    let compiled: Vec<Vec<RuleConfig<SupportLang>>> = ls.iter().map(|l| load_rules(l, &active)).collect();
    for (i, (li, src)) in meta.iter().enumerate() {
      let l = &ls[*li];
      let grep = l.lang.ast_grep(src);
      let a = extract(&grep, &compiled[*li]);
      let r = match &res {
        Err(e) => json!(e),
        Ok(per_file) => cli_result(&a, per_file.get(&files[i].0).map(|v| &v[..]).unwrap_or(&[])),
      };
      o.op(
        opname,
        json!({"lang": l.name, "src": src, "rules": active, "nodes": a.nodes, "f": a.findings, "flags": flags}),
        r,
      );
    }
  }
}

// ---------------------------------------------------------------------------------------
// oracle: the property text, evaluated on the generator's layout
// ---------------------------------------------------------------------------------------

/// The ids a suppression comment lists, from the property text: after the marker, a colon
/// introduces a comma-separated list; items are trimmed; nothing listed (no colon, or no
/// non-empty item) = every rule.
fn spec_ids(content: &str) -> Option<Vec<String>> {
  let at = content.find(MARK)?;
  let tail = &content[at + MARK.len()..];
  let colon = tail.find(':')?;
  let items: Vec<String> = tail[colon + 1..].split(',').map(|s| s.trim().to_string()).filter(|s| !s.is_empty()).collect();
  if items.is_empty() {
    None
  } else {
    Some(items)
  }
}

#[derive(Clone, Debug, PartialEq, Eq, PartialOrd, Ord)]
struct Obs {
  /// (rule id, byte start, byte end) of every reported finding
  reported: Vec<(String, usize, usize)>,
  /// the reported findings that must be / are in `ScanResult.diffs` (fixable rule and `separate_fix`)
  diffs: Vec<(String, usize, usize)>,
  /// byte start of every comment reported as unused suppression
  unused: Vec<usize>,
}

/// what the property says must come out
fn expected(grep: &Grep, rules: &[RuleConfig<SupportLang>], placed: &[Placed], sf: bool) -> Obs {
  let sup: Vec<&Placed> = placed.iter().filter(|c| c.content.contains(MARK)).collect();
  let governs = |c: &Placed, line: usize| if c.own_line { c.line + 1 == line } else { c.line == line };
  let names = |c: &Placed, id: &str| match spec_ids(&c.content) {
    None => true,
    Some(ids) => ids.iter().any(|x| x == id),
  };
  let mut reported = vec![];
  let mut diffs = vec![];
  let mut used = vec![false; sup.len()];
  for r in rules {
    for nm in grep.root().find_all(&r.matcher) {
      let line = nm.start_pos().line();
      let mut suppressed = false;
      for (k, c) in sup.iter().enumerate() {
        if governs(c, line) && names(c, &r.id) {
          suppressed = true;
          used[k] = true;
        }
      }
      if !suppressed {
        reported.push((r.id.clone(), nm.range().start, nm.range().end));
        // a finding is a finding wherever it is delivered: with `separate_fix` those of fixable
        // rules travel in `diffs`
        if sf && r.fix.is_some() {
          diffs.push((r.id.clone(), nm.range().start, nm.range().end));
        }
      }
    }
  }
  reported.sort();
  diffs.sort();
  let mut unused: Vec<usize> = sup.iter().zip(&used).filter(|(_, u)| !**u).map(|(c, _)| c.start).collect();
  unused.sort();
  Obs { reported, diffs, unused }
}

/// what the implementation does (unused-suppression rule on); `matches` and `diffs` are both read
fn observed(grep: &Grep, rules: &[RuleConfig<SupportLang>], sf: bool) -> Result<Obs, String> {
  let r = std::panic::catch_unwind(std::panic::AssertUnwindSafe(|| {
    let unused = CombinedScan::unused_config(Severity::Hint, *grep.lang());
    let mut scan = CombinedScan::new(rules.iter().collect());
    scan.set_unused_suppression_rule(&unused);
    let res = scan.scan(grep, sf);
    let mut obs = Obs { reported: vec![], diffs: vec![], unused: vec![] };
    for (rule, nms) in &res.matches {
      for nm in nms {
        if std::ptr::eq(*rule, &unused) {
          obs.unused.push(nm.range().start);
        } else {
          obs.reported.push((rule.id.clone(), nm.range().start, nm.range().end));
        }
      }
    }
    for (rule, nm) in &res.diffs {
      if std::ptr::eq(*rule, &unused) {
        obs.unused.push(nm.range().start);
      } else {
        obs.reported.push((rule.id.clone(), nm.range().start, nm.range().end));
        obs.diffs.push((rule.id.clone(), nm.range().start, nm.range().end));
      }
    }
    obs.reported.sort();
    obs.diffs.sort();
    obs.unused.sort();
    obs
  }));
  r.map_err(|_| "panic".to_string())
}

/// Input classes, computed from the layout and the un-suppressed findings only (never from the
/// implementation's output).  A class is attached only where it can matter for the property:
/// the comment in question governs a finding it should silence, or is unused by the property text.
fn classes(l: &LangSpec, grep: &Grep, rules: &[RuleConfig<SupportLang>], placed: &[Placed], sf: bool) -> Vec<&'static str> {
  let mut v = vec![];
  let sup: Vec<&Placed> = placed.iter().filter(|c| c.content.contains(MARK)).collect();
  let gov = |c: &Placed| if c.own_line { c.line + 1 } else { c.line };
  let mut by_line: BTreeMap<usize, usize> = BTreeMap::new();
  for c in &sup {
    *by_line.entry(gov(c)).or_default() += 1;
  }
  if by_line.values().any(|&n| n > 1) {
    v.push("two-suppressions-govern-one-line");
  }
  // (rule id, line) of every finding without suppression
  let mut found: Vec<(String, usize)> = vec![];
  let mut fixable: Vec<String> = vec![];
  for r in rules {
    if r.fix.is_some() {
      fixable.push(r.id.clone());
    }
    for nm in grep.root().find_all(&r.matcher) {
      found.push((r.id.clone(), nm.start_pos().line()));
    }
  }
  for c in &sup {
    let tail = &c.content[c.content.find(MARK).unwrap() + MARK.len()..];
    let ids = spec_ids(&c.content);
    let governed: Vec<&(String, usize)> = found.iter().filter(|(_, line)| *line == gov(c)).collect();
    let spec_used = governed.iter().any(|(id, _)| ids.as_ref().map_or(true, |v| v.contains(id)));
    if tail.contains(':') && ids.is_none() && !governed.is_empty() {
      v.push("colon-with-empty-id-list");
    }
    // fixes separated (interactive / --update-all): a finding of a FIXABLE rule that this comment
    // governs and names travels through the `diffs` path of the scan
    if sf && governed.iter().any(|(id, _)| fixable.contains(id) && ids.as_ref().map_or(true, |v| v.contains(id))) {
      v.push(if c.own_line { "separate-fix fixable-rule own-line" } else { "separate-fix fixable-rule trailing" });
    }
    if c.style == Style::Block && tail.contains(':') {
      if let Some(last) = ids.as_ref().and_then(|v| v.last()) {
        if governed.iter().any(|(id, _)| id == last) {
          v.push("id-list-in-block-comment");
        }
      }
    }
    // grammars that put a node whose kind contains "comment" INSIDE the comment node:
    // Lua `comment > comment_content`, Rust `line_comment > doc_comment`
    if (c.style == Style::Doc || l.lang == SupportLang::Lua) && (c.own_line || !spec_used) {
      v.push("comment-node-with-nested-comment-kind-child");
    }
  }
  v.sort();
  v.dedup();
  v
}

#[derive(Clone)]
struct OCase {
  lines: Vec<Ln>,
  active: Vec<usize>,
  /// `separate_fix` of `CombinedScan::scan`
  sf: bool,
}

thread_local! {
  /// compiled rule sets, by (language, active rule indices)
  static RULE_CACHE: std::cell::RefCell<HashMap<(String, Vec<usize>), std::rc::Rc<Vec<RuleConfig<SupportLang>>>>> =
    std::cell::RefCell::new(HashMap::new());
}

fn cached_rules(l: &LangSpec, active: &[usize]) -> std::rc::Rc<Vec<RuleConfig<SupportLang>>> {
  RULE_CACHE.with(|c| {
    c.borrow_mut()
      .entry((l.name.to_string(), active.to_vec()))
      .or_insert_with(|| std::rc::Rc::new(load_rules(l, active)))
      .clone()
  })
}

fn check_case(l: &LangSpec, c: &OCase) -> Option<(Obs, Result<Obs, String>, String, Vec<Placed>)> {
  let (src, placed) = render(l, &c.lines);
  let rules = cached_rules(l, &c.active);
  let grep = l.lang.ast_grep(&src);
  let want = expected(&grep, &rules, &placed, c.sf);
  let got = observed(&grep, &rules, c.sf);
  if got.as_ref().ok() == Some(&want) {
    None
  } else {
    Some((want, got, src, placed))
  }
}

/// greedy minimisation: drop lines, comments, statements, rules while the case still fails
fn minimise(l: &LangSpec, mut c: OCase) -> OCase {
  loop {
    let mut progressed = false;
    // the plain scan is the simpler input: keep `separate_fix` only when the failure needs it
    if c.sf {
      let mut t = c.clone();
      t.sf = false;
      if check_case(l, &t).is_some() {
        c = t;
        progressed = true;
      }
    }
    // rules
    let mut k = 0;
    while c.active.len() > 1 && k < c.active.len() {
      let mut t = c.clone();
      t.active.remove(k);
      if check_case(l, &t).is_some() {
        c = t;
        progressed = true;
      } else {
        k += 1;
      }
    }
    // whole lines
    let mut k = 0;
    while k < c.lines.len() {
      let mut t = c.clone();
      t.lines.remove(k);
      if check_case(l, &t).is_some() {
        c = t;
        progressed = true;
      } else {
        k += 1;
      }
    }
    // comments / statements / indentation inside a line
    for k in 0..c.lines.len() {
      for what in 0..4 {
        let mut t = c.clone();
        let ln = &mut t.lines[k];
        let changed = match what {
          0 if !ln.cms.is_empty() && !(ln.stmts.is_empty() && ln.cms.len() == 1) => {
            ln.cms.pop();
            true
          }
          1 if ln.stmts.len() > 1 => {
            ln.stmts.pop();
            true
          }
          2 if ln.indent > 0 => {
            ln.indent = 0;
            true
          }
          3 if ln.stmts.len() == 1 && ln.stmts[0] != l.stmts[0] => {
            ln.stmts[0] = l.stmts[0].to_string();
            true
          }
          _ => false,
        };
        if changed && check_case(l, &t).is_some() {
          c = t;
          progressed = true;
        }
      }
    }
    // simpler directives and comment styles
    for k in 0..c.lines.len() {
      for j in 0..c.lines[k].cms.len() {
        let cur = c.lines[k].cms[j].clone();
        let mut alts: Vec<Cm> = vec![];
        for dir in [MARK.to_string(), format!("{MARK}: {}", IDS[0]), format!("{MARK}: {}", IDS[3])] {
          if dir.len() < cur.dir.len() {
            alts.push(Cm { style: cur.style, dir });
          }
        }
        if cur.style != Style::Line && l.line.is_some() && j + 1 == c.lines[k].cms.len() {
          alts.push(Cm { style: Style::Line, dir: cur.dir.clone() });
        }
        for alt in alts {
          let mut t = c.clone();
          t.lines[k].cms[j] = alt;
          if check_case(l, &t).is_some() {
            c = t;
            progressed = true;
            break;
          }
        }
      }
    }
    if !progressed {
      return c;
    }
  }
}

pub fn oracle(ctx: &Ctx, rng: &mut Rng, o: &mut Out) {
  let subs = subsets();
  let all = directives(true);
  let small = directives(false);
  let mut total = 0usize;
  // the H11 witness of `suppress_collision_counterexample` is replayed on the real code first
  {
    let l = lang_by_name("JavaScript").unwrap();
    let c = OCase {
      lines: vec![
        Ln { cms: vec![Cm { style: Style::Line, dir: format!("{MARK}: no-foo") }], ..Default::default() },
        Ln { stmts: vec!["foo(1);".into()], cms: vec![Cm { style: Style::Line, dir: format!("{MARK}: N1") }], ..Default::default() },
      ],
      active: vec![0, 3],
      sf: false,
    };
    report(o, &l, c.clone(), "lean-witness");
    report(o, &l, OCase { sf: true, ..c }, "lean-witness");
    total += 2;
    // fixable and non-fixable rules on one governed line, fixes separated: the suppressed findings of
    // both kinds must stay silent (in `matches` AND in `diffs`) and their comment must count as used
    for own in [true, false] {
      let cm = Cm { style: Style::Line, dir: format!("{MARK}: no_bar, no-foo") };
      let lines = if own {
        vec![
          Ln { cms: vec![cm], ..Default::default() },
          Ln { stmts: vec!["foo(bar(3));".into()], ..Default::default() },
          Ln { stmts: vec!["bar(2);".into()], cms: vec![Cm { style: Style::Line, dir: format!("{MARK}: N1") }], ..Default::default() },
        ]
      } else {
        vec![
          Ln { stmts: vec!["foo(bar(3));".into()], cms: vec![cm], ..Default::default() },
          Ln { stmts: vec!["bar(2);".into()], cms: vec![Cm { style: Style::Line, dir: format!("{MARK}: N1") }], ..Default::default() },
        ]
      };
      report(o, &l, OCase { lines, active: vec![0, 1, 2, 3], sf: true }, "separate-fix-witness");
      total += 1;
    }
  }
  for (li, l) in langs().iter().enumerate() {
    let mut n_lang = 0usize;
    let mut cases: Vec<OCase> = vec![];
    for (k, prog) in systematic_programs(l, &small, li + 5).into_iter().enumerate() {
      let active = subs[(k * 5 + li) % subs.len()].clone();
      // the property is evaluated for both values of `separate_fix`
      cases.push(OCase { lines: prog.clone(), active: active.clone(), sf: false });
      cases.push(OCase { lines: prog, active, sf: true });
    }
    let n = if ctx.thorough { 20_000 } else { 800 };
    for _ in 0..n {
      let c = OCase { lines: random_program(l, rng, &all, true), active: subs[rng.below(subs.len())].clone(), sf: false };
      cases.push(c.clone());
      cases.push(OCase { sf: true, ..c });
    }
    // failures are reported once per minimised source
    let mut seen: std::collections::BTreeSet<String> = Default::default();
    for c in cases {
      n_lang += 1;
      if check_case(l, &c).is_some() {
        let m = minimise(l, c);
        let (src, _) = render(l, &m.lines);
        let key = format!("{src}\u{0}{:?}\u{0}{}", m.active, m.sf);
        if seen.insert(key) {
          report(o, l, m, "generated");
        }
      }
    }
    total += n_lang;
    o.oracle("suppress-spec-lang-done", true, json!({"lang": l.name, "cases": n_lang}));
  }
  let _ = total;
  let t0 = std::time::Instant::now();
  update_all_family(ctx, rng, o);
  eprintln!("c14_oracle: update-all family {:.1}s", t0.elapsed().as_secs_f64());
}

fn report(o: &mut Out, l: &LangSpec, c: OCase, origin: &str) {
  if let Some((want, got, src, placed)) = check_case(l, &c) {
    let rules = load_rules(l, &c.active);
    let grep = l.lang.ast_grep(&src);
    let cls = classes(l, &grep, &rules, &placed, c.sf);
    let fp = if cls.is_empty() { format!("suppress unclassified lang={}", l.name) } else { format!("suppress {}", cls.join("+")) };
    let ids: Vec<&str> = c.active.iter().map(|&k| l.rules[k].0).collect();
    o.oracle(
      "suppress-spec",
      false,
      json!({"fp": fp, "origin": origin, "lang": l.name, "src": src, "rules": ids, "separate_fix": c.sf,
        "expected": {"reported": want.reported, "in_diffs": want.diffs, "unused": want.unused},
        "actual": match got { Ok(g) => json!({"reported": g.reported, "in_diffs": g.diffs, "unused": g.unused}), Err(e) => json!(e) }}),
    );
  } else {
    o.oracle("suppress-spec", true, json!({"origin": origin, "cases": 1}));
  }
}

// ---------------------------------------------------------------------------------------
// oracle, end to end: `scan --update-all` on a temp copy.  Suppressed findings of fixable rules
// must not be rewritten and the comments that silence them must survive; findings that are not
// suppressed are rewritten; suppression comments that silence nothing are removed (the
// unused-suppression rule's fix is the empty string).
// ---------------------------------------------------------------------------------------

/// programs of the `-U` family: single-line statements, at most one comment per line, only the
/// directive forms and comment syntaxes on which the plain scan has no recorded finding
fn update_program(l: &LangSpec, rng: &mut Rng) -> Vec<Ln> {
  let dirs: Vec<String> = if l.line.is_some() {
    vec![
      MARK.to_string(),
      format!("{MARK}: {}", IDS[0]),
      format!("{MARK}: {}", IDS[1]),
      format!("{MARK}: {}", IDS[3]),
      format!("{MARK}: {}, {}", IDS[1], IDS[3]),
      format!("{MARK}: {}, {}", IDS[0], IDS[2]),
      format!("{MARK}: unknown-rule"),
      "plain remark".to_string(),
    ]
  } else {
    vec![MARK.to_string(), MARK.to_string(), "plain remark".to_string()]
  };
  let style = if l.line.is_some() { Style::Line } else { Style::Block };
  let n = 2 + rng.below(6);
  let mut lines = vec![];
  for _ in 0..n {
    let mut ln = Ln::default();
    let n_stmts = if rng.chance(1, 5) { 2 } else { 1 };
    match rng.below(10) {
      0 => {}
      1..=3 => ln.stmts = (0..n_stmts).map(|_| rng.pick(l.stmts).to_string()).collect(),
      4..=6 => {
        ln.stmts = (0..n_stmts).map(|_| rng.pick(l.stmts).to_string()).collect();
        ln.cms = vec![Cm { style, dir: rng.pick(&dirs).clone() }];
      }
      _ => ln.cms = vec![Cm { style, dir: rng.pick(&dirs).clone() }],
    }
    lines.push(ln);
  }
  lines
}

/// what the property text demands of one line of the rewritten file
#[derive(Default, Clone)]
struct LineDuty {
  /// input classes of the line
  classes: Vec<&'static str>,
  /// every fixable finding of the line is suppressed and its comment (if any) is used or no suppression
  must_stay: bool,
  /// a comment that must still be there / must be gone
  comment_survives: Option<String>,
  comment_removed: Option<String>,
  /// an un-suppressed finding whose fix changes the text
  must_change: bool,
}

fn line_duties(l: &LangSpec, src: &str, lines: &[Ln], placed: &[Placed]) -> Vec<LineDuty> {
  let rules = cached_rules(l, &[0, 1, 2, 3]);
  let grep = l.lang.ast_grep(src);
  let sup: Vec<&Placed> = placed.iter().filter(|c| c.content.contains(MARK)).collect();
  let gov = |c: &Placed| if c.own_line { c.line + 1 } else { c.line };
  let names = |c: &Placed, id: &str| spec_ids(&c.content).map_or(true, |v| v.iter().any(|x| x == id));
  let mut duties = vec![LineDuty { must_stay: true, ..Default::default() }; lines.len()];
  let mut used = vec![false; sup.len()];
  for r in rules.iter() {
    for nm in grep.root().find_all(&r.matcher) {
      let line = nm.start_pos().line();
      let mut by: Option<&Placed> = None;
      for (k, c) in sup.iter().enumerate() {
        if gov(c) == line && names(c, &r.id) {
          used[k] = true;
          by = Some(*c);
        }
      }
      if r.fix.is_none() || line >= duties.len() {
        continue;
      }
      let d = &mut duties[line];
      match by {
        Some(c) => d.classes.push(if c.own_line { "suppressed-fixable-finding-own-line" } else { "suppressed-fixable-finding-trailing" }),
        None => {
          d.must_stay = false;
          d.classes.push("unsuppressed-fixable-finding");
          // `bar(…)` → `qux(…)`, a rule set → `z {}`: the fix of the second rule always changes the text
          if r.id == IDS[1] {
            d.must_change = true;
          }
        }
      }
    }
  }
  for (k, c) in sup.iter().enumerate() {
    let d = &mut duties[c.line];
    let text = render_cm(l, &Cm { style: c.style, dir: c.content.clone() });
    if used[k] {
      d.classes.push(if c.own_line { "used-comment-own-line" } else { "used-comment-trailing" });
      d.comment_survives = Some(text);
    } else {
      d.classes.push(if c.own_line { "unused-comment-own-line" } else { "unused-comment-trailing" });
      d.must_stay = false;
      d.must_change = true;
      d.comment_removed = Some(text);
    }
  }
  for d in &mut duties {
    d.classes.sort();
    d.classes.dedup();
  }
  duties
}

/// first line of `out` that violates its duty: (line, what)
fn update_violation(src: &str, out: &str, duties: &[LineDuty]) -> Option<(usize, String)> {
  let a: Vec<&str> = src.split('\n').collect();
  let b: Vec<&str> = out.split('\n').collect();
  if a.len() != b.len() {
    return Some((usize::MAX, format!("line count {} -> {}", a.len(), b.len())));
  }
  for (i, d) in duties.iter().enumerate() {
    if let Some(c) = &d.comment_survives {
      if !b[i].contains(c.as_str()) {
        return Some((i, "a suppression comment that silences a finding was removed".into()));
      }
    }
    if d.must_stay && a[i] != b[i] {
      return Some((i, "a line whose fixable findings are all suppressed was rewritten".into()));
    }
    if let Some(c) = &d.comment_removed {
      if b[i].contains(c.as_str()) {
        return Some((i, "a suppression comment that silences nothing was kept".into()));
      }
    }
    if d.must_change && a[i] == b[i] {
      return Some((i, "a line with an un-suppressed fixable finding / unused suppression was not rewritten".into()));
    }
  }
  None
}

/// `agv-sg scan --update-all` in `dir`; outcome string on failure
fn run_update_all(dir: &std::path::Path, timeout_s: u64) -> Result<(), String> {
  let out = std::process::Command::new("timeout")
    .arg(timeout_s.to_string())
    .arg(agv_sg())
    .arg("scan")
    .arg("--update-all")
    .current_dir(dir)
    .output()
    .map_err(|e| format!("spawn:{e}"))?;
  match out.status.code() {
    Some(0) => Ok(()),
    Some(124) => Err("hang".into()),
    Some(c) => Err(format!("exit:{c}")),
    None => Err("signal".into()),
  }
}

/// one file through its own project: the rewritten text
fn update_one(l: &LangSpec, src: &str) -> Result<String, String> {
  let name = format!("one.{}", l.ext);
  let dir = cli_project(&[lang_by_name(l.name).unwrap()], &[0, 1, 2, 3], &[(name.clone(), src.to_string())]);
  run_update_all(dir.path(), 60)?;
  std::fs::read_to_string(dir.path().join(&name)).map_err(|e| format!("read:{e}"))
}

fn update_all_family(ctx: &Ctx, rng: &mut Rng, o: &mut Out) {
  let ls: Vec<LangSpec> = langs().into_iter().filter(|l| l.lang != SupportLang::Lua).collect();
  let per_lang = if ctx.thorough { 1200 } else { 150 };
  let mut progs: Vec<(usize, Vec<Ln>)> = vec![];
  // witnesses first: a fixable rule silenced from above / from the end of the line, next to a
  // non-fixable one, an un-suppressed finding and an unused comment
  let js = ls.iter().position(|l| l.name == "JavaScript").unwrap();
  let line = |stmts: &[&str], dir: Option<&str>| Ln {
    stmts: stmts.iter().map(|s| s.to_string()).collect(),
    cms: dir.map(|d| vec![Cm { style: Style::Line, dir: d.to_string() }]).unwrap_or_default(),
    ..Default::default()
  };
  progs.push((js, vec![
    line(&[], Some(&format!("{MARK}: no_bar"))),
    line(&["bar(2);"], None),
    line(&["bar(2);"], Some(&format!("{MARK}: no_bar, N1"))),
    line(&["foo(bar(3));"], Some(MARK)),
    line(&["bar(2);"], None),
    line(&[], Some(&format!("{MARK}: no-foo"))),
    line(&["bar(2);"], None),
  ]));
  for (li, l) in ls.iter().enumerate() {
    for _ in 0..per_lang {
      progs.push((li, update_program(l, rng)));
    }
  }
  let mut files: Vec<(String, String)> = vec![];
  let mut meta = vec![];
  for (k, (li, prog)) in progs.iter().enumerate() {
    let l = &ls[*li];
    let (src, placed) = render(l, prog);
    files.push((format!("u{k:05}.{}", l.ext), src.clone()));
    meta.push((*li, src, placed));
  }
  let dir = cli_project(&ls, &[0, 1, 2, 3], &files);
  if let Err(e) = run_update_all(dir.path(), if ctx.thorough { 900 } else { 180 }) {
    o.oracle("suppress-update-all", false, json!({"fp": format!("suppress update-all cli {e}"), "outcome": e}));
    return;
  }
  // per fingerprint keep the smallest failing program, then shrink it line by line through the CLI
  let mut worst: BTreeMap<String, (usize, usize)> = BTreeMap::new(); // fp -> (prog index, size)
  let mut fails = 0usize;
  let fp_of = |duties: &[LineDuty], at: usize| -> String {
    if at == usize::MAX {
      "suppress update-all line-count".to_string()
    } else {
      format!("suppress update-all {}", duties[at].classes.join("+"))
    }
  };
  for (k, (li, src, placed)) in meta.iter().enumerate() {
    let l = &ls[*li];
    let out = std::fs::read_to_string(dir.path().join(&files[k].0)).unwrap_or_default();
    let duties = line_duties(l, src, &progs[k].1, placed);
    if let Some((at, _)) = update_violation(src, &out, &duties) {
      fails += 1;
      let fp = fp_of(&duties, at);
      let size = src.len();
      if worst.get(&fp).map_or(true, |(_, s)| size < *s) {
        worst.insert(fp, (k, size));
      }
    }
  }
  for (_, (k, _)) in worst {
    let l = &ls[meta[k].0];
    let mut prog = progs[k].1.clone();
    let mut budget = 40;
    let fails_now = |prog: &[Ln]| -> Option<(String, String, usize, String, Vec<LineDuty>)> {
      let (src, placed) = render(l, prog);
      let out = update_one(l, &src).ok()?;
      let duties = line_duties(l, &src, prog, &placed);
      let (at, what) = update_violation(&src, &out, &duties)?;
      Some((src, out, at, what, duties))
    };
    let mut i = 0;
    while i < prog.len() && budget > 0 {
      let mut t = prog.clone();
      t.remove(i);
      budget -= 1;
      if fails_now(&t).is_some() {
        prog = t;
      } else {
        i += 1;
      }
    }
    match fails_now(&prog) {
      Some((src, out, at, what, duties)) => {
        let fp = fp_of(&duties, at);
        o.oracle(
          "suppress-update-all",
          false,
          json!({"fp": fp, "lang": l.name, "src": src, "rewritten": out, "line": if at == usize::MAX { Value::Null } else { json!(at) },
            "violation": what, "rules": IDS, "cmd": "agv-sg scan --update-all (project: all four rules)"}),
        );
      }
      None => {
        // the failure needs the other files of the project: report the un-minimised case
        let (li, src, placed) = &meta[k];
        let out = std::fs::read_to_string(dir.path().join(&files[k].0)).unwrap_or_default();
        let duties = line_duties(&ls[*li], src, &progs[k].1, placed);
        let (at, what) = update_violation(src, &out, &duties).unwrap();
        o.oracle(
          "suppress-update-all",
          false,
          json!({"fp": fp_of(&duties, at), "lang": ls[*li].name, "src": src, "rewritten": out, "violation": what, "minimised": false}),
        );
      }
    }
  }
  o.oracle("suppress-update-all-done", true, json!({"cases": meta.len(), "failing_files": fails}));
}

// ---------------------------------------------------------------------------------------
// replay
// ---------------------------------------------------------------------------------------

pub fn exec(op: &str, a: &Value) -> Option<Value> {
  match op {
    "suppress_parse" => Some(parse_result(a["t"].as_str()?)),
    "suppress_scan" | "suppress_scan_fixed" => {
      let l = lang_by_name(a["lang"].as_str()?)?;
      let active: Vec<usize> = a["rules"].as_array()?.iter().filter_map(|x| x.as_u64().map(|n| n as usize)).collect();
      let rules = load_rules(&l, &active);
      let grep = l.lang.ast_grep(a["src"].as_str()?);
      let ab = extract(&grep, &rules);
      Some(real_scan(&grep, &rules, &ab, a["sf"].as_bool()?, a["ur"].as_bool()?))
    }
    "suppress_cli" | "suppress_cli_fixed" => {
      let l = lang_by_name(a["lang"].as_str()?)?;
      let active: Vec<usize> = a["rules"].as_array()?.iter().filter_map(|x| x.as_u64().map(|n| n as usize)).collect();
      let rules = load_rules(&l, &active);
      let src = a["src"].as_str()?;
      let name = format!("replay.{}", l.ext);
      let dir = cli_project(&[lang_by_name(l.name)?], &active, &[(name.clone(), src.to_string())]);
      let grep = l.lang.ast_grep(src);
      let ab = extract(&grep, &rules);
      let flags: Vec<String> = a["flags"].as_array().map(|v| v.iter().filter_map(|x| x.as_str().map(|s| s.to_string())).collect()).unwrap_or_default();
      Some(match run_cli(dir.path(), 60, &flags) {
        Err(e) => json!(e),
        Ok(per_file) => cli_result(&ab, per_file.get(&name).map(|v| &v[..]).unwrap_or(&[])),
      })
    }
    _ => None,
  }
}

/// debugging aid: `agv-harness c14_dump <Lang> <file>` prints the nodes the scan looks at
pub fn dump(ctx: &Ctx) {
  let l = lang_by_name(&ctx.rest[0]).expect("language");
  let src = std::fs::read_to_string(&ctx.rest[1]).expect("file");
  let grep = l.lang.ast_grep(&src);
  for node in grep.root().dfs() {
    let prev = node.prev().map(|p| (p.kind().to_string(), p.start_pos().line(), p.end_pos().line()));
    println!(
      "{:>3}-{:<3} {:<24} prev={:?} {:?}",
      node.start_pos().line(),
      node.end_pos().line(),
      node.kind(),
      prev,
      node.text().chars().take(40).collect::<String>()
    );
  }
}
