use crate::util::*;
pub mod frontends;
pub mod indent;
pub mod matching;
pub mod navigation;
pub mod notation;
pub mod worker;
pub mod lsp;
pub mod print;
pub mod rules;
pub mod scan;
pub mod select;
pub mod topo;
pub mod c13proj;
pub mod splice;
pub mod suppress;
pub mod tables;
pub mod procpool;
pub mod yaml;
pub mod yaml_gen;
pub mod checkvar;
pub mod editdoc;
pub mod convert_case;
pub mod verify;
pub mod injection;
pub mod lsp_requests;
pub mod inspect;
pub mod structural;
pub mod project;

pub struct Ctx {
  pub seed: u64,
  pub thorough: bool,
  pub rest: Vec<String>,
}

pub fn run(unit: &str, ctx: &Ctx, rng: &mut Rng, o: &mut Out) -> bool {
  match unit {
    "metavar" => notation::metavar(ctx, rng, o),
    "anb" => notation::anb(ctx, rng, o),
    "substring" => notation::substring(ctx, rng, o),
    "template_scan" => notation::template_scan(ctx, rng, o),
    "c20_oracle" => notation::oracle(ctx, rng, o),
    "indent" => indent::indent(ctx, rng, o),
    "template_fix" => indent::template_fix(ctx, rng, o),
    "c07_oracle" => indent::oracle(ctx, rng, o),
    "bytes" => print::bytes(ctx, rng, o),
    "print" => print::print(ctx, rng, o),
    "jsonframe" => print::jsonframe(ctx, rng, o),
    "c16_cli" => print::cli_unit(ctx, rng, o),
    "injected_positions" => print::injected_positions(ctx, rng, o),
    "suppress_parse" => suppress::suppress_parse(ctx, rng, o),
    "suppress_scan" => suppress::suppress_scan(ctx, rng, o),
    "suppress_cli" => suppress::suppress_cli(ctx, rng, o),
    "c14_oracle" => suppress::oracle(ctx, rng, o),
    "c14_dump" => suppress::dump(ctx),
    "interactive" => splice::interactive(ctx, rng, o),
    "rewrite_splice" => splice::rewrite_splice(ctx, rng, o),
    "edit_range" => splice::edit_range(ctx, rng, o),
    "update_cli" => splice::update_cli(ctx, rng, o),
    "c06_cli" => splice::c06_cli(ctx, rng, o),
    "scan" => scan::scan_unit(ctx, rng, o),
    "scan_cli" => scan::cli_unit(ctx, rng, o),
    "select_unit" => select::unit(ctx, rng, o),
    "select_cli" => select::cli(ctx, rng, o),
    "topo" => topo::unit(ctx, rng, o),
    "c13_process" => c13proj::process(ctx, rng, o),
    "navigation" => navigation::navigation(ctx, rng, o),
    "replace_all" => navigation::replace_all_unit(ctx, rng, o),
    "verify_run" => verify::verify_run(ctx, rng, o),
    "injection" => injection::injection(ctx, rng, o),
    "lsp_requests" => lsp_requests::lsp_requests(ctx, rng, o),
    "inspect" => inspect::inspect(ctx, rng, o),
    "structural" => structural::structural(ctx, rng, o),
    "project" => project::project(ctx, rng, o),
    "frontends_edit" => frontends::frontends_edit(ctx, rng, o),
    "frontends_findings" => frontends::frontends_findings(ctx, rng, o),
    "read_file" => worker::read_file(ctx, rng, o),
    "worker_trees" => worker::worker_trees(ctx, rng, o),
    "lsp_history" => lsp::lsp_history(ctx, rng, o),
    "lsp_unawaited" => lsp::lsp_unawaited(ctx, rng, o),
    "cut" => matching::cut_unit(ctx, rng, o),
    "near_miss" => matching::near_miss_unit(ctx, rng, o),
    "rules_shared" => rules::rules_unit(ctx, rng, o, true),
    "rules_disjoint" => rules::rules_unit(ctx, rng, o, false),
    "editdoc" => editdoc::editdoc(ctx, rng, o),
    "edittree" => editdoc::edittree(ctx, rng, o),
    "yaml_load" => yaml_gen::yaml_load(ctx, rng, o),
    "yaml_scan" => yaml::yaml_scan(ctx, rng, o),
    "yaml_child" => yaml::child_main(),
    "c12_accept" => checkvar::c12_accept(ctx, rng, o),
    "convert_case" => convert_case::convert_case(ctx, rng, o),
    _ => return false,
  }
  true
}

/// execute one recorded op (`{"op","a"}`) on the current implementation
pub fn exec_op(op: &str, a: &serde_json::Value) -> serde_json::Value {
  if let Some(v) = notation::exec(op, a) {
    return v;
  }
  if let Some(v) = indent::exec(op, a) {
    return v;
  }
  if let Some(v) = print::exec(op, a) {
    return v;
  }
  if let Some(v) = suppress::exec(op, a) {
    return v;
  }
  if let Some(v) = splice::exec(op, a) {
    return v;
  }
  if let Some(v) = select::exec(op, a) {
    return v;
  }
  if let Some(v) = topo::exec(op, a) {
    return v;
  }
  if let Some(v) = navigation::exec(op, a) {
    return v;
  }
  if let Some(v) = frontends::exec(op, a) {
    return v;
  }
  if let Some(v) = worker::exec(op, a) {
    return v;
  }
  if let Some(v) = lsp::exec(op, a) {
    return v;
  }
  if let Some(v) = yaml::exec(op, a) {
    return v;
  }
  if let Some(v) = editdoc::exec(op, a) {
    return v;
  }
  if let Some(v) = checkvar::exec(op, a) {
    return v;
  }
  if let Some(v) = convert_case::exec(op, a) {
    return v;
  }
  if let Some(v) = verify::exec(op, a) {
    return v;
  }
  if let Some(v) = injection::exec(op, a) {
    return v;
  }
  if let Some(v) = lsp_requests::exec(op, a) {
    return v;
  }
  if let Some(v) = inspect::exec(op, a) {
    return v;
  }
  if let Some(v) = structural::exec(op, a) {
    return v;
  }
  if let Some(v) = project::exec(op, a) {
    return v;
  }
  serde_json::json!({"harness_error": format!("op {op} is not replayable stand-alone")})
}
