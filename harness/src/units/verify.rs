//! Unit `verify_run`: the rule-test runner `sg test` (crates/cli/src/verify.rs and verify/*.rs)
//! against `lean/AstGrepVerif/Model/Verify.lean`.
//!
//! Small projects are materialised in a temp directory: 1–3 JavaScript rules of trivially
//! decidable kinds (`foo($A)` with / without fix, a relational rule with a secondary label, a rule
//! switched off), 1–4 test files with 1–2 documents each (ids shared between files, an id without
//! rule, wrong expectations, duplicated sources), a snapshot directory (nothing / right / stale /
//! a vanished id / a file not named `<id>-snapshot.yml` / two files with one id) and flags.
//! The REAL `run_test_rule_impl` runs in-process through the hook `verif_hooks_verify::run_test`
//! (non-interactive reporter writing to memory); reported are the case results in order, the exit
//! status, the "Configuration not found!" ids and the snapshot directory afterwards (every file read
//! back through the real `TestSnapshots` type).  The model gets the project as the loader saw it
//! (documents and snapshot files in the order of the same directory walk) plus the `gen` table
//! (`TestSnapshot::generate` of the real rule per (id, source)).
//! Oracles on the implementation alone: `-U` then `test` has no snapshot mismatch, a second `-U`
//! rewrites the same bytes, permuted test files / case lists give the same verdict and bytes,
//! snapshot files without test case keep their bytes, verdict reference, `fixed` = the rule's edit.
use crate::units::Ctx;
use crate::util::*;
use ast_grep::verif_hooks_verify as hook;
use serde_json::{json, Value};
use std::collections::{BTreeMap, BTreeSet};
use std::path::Path;

const POOL: &[&str] = &[
  "foo(1)",
  "foo(2)",
  "baz(1)",
  "foo(1); foo(2)",
  "bar(foo(3))",
  "// foo(1)",
  "if (a) {\n  foo(1)\n}",
  "x == null",
  "function f() { foo(4) }",
  "foo(foo(5))",
  "",
];

#[derive(Clone)]
struct TestDoc {
  id: String,
  valid: Vec<String>,
  invalid: Vec<String>,
}

#[derive(Clone, Default)]
struct Proj {
  /// path relative to the project root -> text
  files: BTreeMap<String, String>,
  rule_ids: Vec<String>,
}

fn rule_yaml(kind: usize, id: &str) -> String {
  match kind {
    0 => format!("id: {id}\nlanguage: JavaScript\nrule:\n  pattern: foo($A)\n"),
    1 => format!("id: {id}\nlanguage: JavaScript\nrule:\n  pattern: foo($A)\nfix: bar($A)\n"),
    2 => format!("id: {id}\nlanguage: JavaScript\nrule:\n  pattern: foo($A)\n  inside:\n    kind: statement_block\n    stopBy: end\nfix: qux($A, 1)\n"),
    3 => format!("id: {id}\nlanguage: JavaScript\nrule:\n  pattern: $X == null\nfix: $X === null\n"),
    _ => format!("id: {id}\nlanguage: JavaScript\nseverity: off\nrule:\n  pattern: foo($A)\n"),
  }
}

/// what the generator expects the rule kinds to report (only steers the generator)
fn matches_kind(kind: usize, s: &str) -> bool {
  let foo = s.contains("foo(") && !s.starts_with("//");
  match kind {
    2 => foo && s.contains('{'),
    3 => s.contains("== null"),
    _ => foo,
  }
}

fn yaml_str(s: &str) -> String {
  serde_json::to_string(s).unwrap() // a JSON string is a YAML double-quoted scalar
}
fn yaml_list(xs: &[String]) -> String {
  format!("[{}]", xs.iter().map(|s| yaml_str(s)).collect::<Vec<_>>().join(", "))
}
fn doc_yaml(d: &TestDoc, rng: &mut Rng) -> String {
  // `valid` / `invalid` default to empty lists: leave an empty one out now and then
  let mut s = format!("id: {}\n", d.id);
  if !(d.valid.is_empty() && rng.chance(1, 2)) {
    s += &format!("valid: {}\n", yaml_list(&d.valid));
  }
  if !(d.invalid.is_empty() && rng.chance(1, 2)) {
    s += &format!("invalid: {}\n", yaml_list(&d.invalid));
  }
  s
}

fn snapshot_yaml(id: &str, entries: &[(String, Value)]) -> String {
  let mut m = serde_yaml::Mapping::new();
  for (k, v) in entries {
    m.insert(serde_yaml::Value::String(k.clone()), serde_yaml::to_value(v).unwrap());
  }
  let mut top = serde_yaml::Mapping::new();
  top.insert("id".into(), id.into());
  top.insert("snapshots".into(), serde_yaml::Value::Mapping(m));
  serde_yaml::to_string(&top).unwrap()
}

fn canon(v: &Value) -> String {
  // serde_json's map is sorted (no preserve_order here): to_string is canonical
  fn sorted(v: &Value) -> Value {
    match v {
      Value::Object(m) => {
        let b: BTreeMap<String, Value> = m.iter().map(|(k, v)| (k.clone(), sorted(v))).collect();
        Value::Object(b.into_iter().collect())
      }
      Value::Array(a) => Value::Array(a.iter().map(sorted).collect()),
      x => x.clone(),
    }
  }
  serde_json::to_string(&sorted(v)).unwrap()
}

fn materialize(p: &Proj) -> tempfile::TempDir {
  let d = tempfile::tempdir().expect("tempdir");
  for (rel, text) in &p.files {
    let path = d.path().join(rel);
    std::fs::create_dir_all(path.parent().unwrap()).unwrap();
    std::fs::write(path, text).unwrap();
  }
  let _ = std::fs::create_dir_all(d.path().join("tests"));
  d
}

/// the `gen` table: the real `TestSnapshot::generate` per (rule id, source)
fn gen_table(root: &Path, ids: &[String], sources: &BTreeSet<String>) -> Vec<(String, String, Value)> {
  let queries: Vec<(String, String)> = ids.iter().flat_map(|i| sources.iter().map(move |s| (i.clone(), s.clone()))).collect();
  let res = hook::generate(root, "rules", &queries);
  queries
    .into_iter()
    .zip(res)
    .filter_map(|((id, src), r)| {
      Some((
        id,
        src,
        match r? {
          Err(_) => json!("error"),
          Ok(None) => Value::Null,
          Ok(Some(v)) => json!({ "snap": canon(&v) }),
        },
      ))
    })
    .collect()
}

struct Loaded {
  /// test documents in walk order
  tests: Vec<TestDoc>,
  /// snapshot files in walk order: (file name, id, entries in file order)
  dir: Vec<(String, String, Vec<(String, String)>)>,
  bytes: BTreeMap<String, Vec<u8>>,
}

fn read_snapshot_file(text: &str) -> Option<(String, Vec<(String, String)>)> {
  let (id, entries) = hook::parse_snapshots(text).ok()?;
  let by_src: BTreeMap<String, Value> = entries.into_iter().collect();
  // file order of the keys (the real type is a HashMap)
  let doc: serde_yaml::Value = serde_yaml::from_str(text).ok()?;
  let keys: Vec<String> = doc
    .get("snapshots")
    .and_then(|m| m.as_mapping())
    .map(|m| m.keys().filter_map(|k| k.as_str().map(String::from)).collect())
    .unwrap_or_default();
  Some((id, keys.into_iter().filter_map(|k| by_src.get(&k).map(|v| (k.clone(), canon(v)))).collect()))
}

/// the project as `read_test_files` sees it: the same walk (`ignore`, yml / yaml files only)
fn load(root: &Path) -> Loaded {
  let test_path = root.join("tests");
  let snap_path = test_path.join("__snapshots__");
  let mut l = Loaded { tests: vec![], dir: vec![], bytes: BTreeMap::new() };
  for e in ignore::WalkBuilder::new(&test_path).types(ast_grep_language::config_file_type()).build().flatten() {
    if !e.file_type().map(|t| t.is_file()).unwrap_or(false) {
      continue;
    }
    let path = e.path();
    let text = std::fs::read_to_string(path).unwrap_or_default();
    if path.starts_with(&snap_path) {
      let name = path.file_name().unwrap().to_string_lossy().into_owned();
      l.bytes.insert(name.clone(), text.clone().into_bytes());
      if let Some((id, entries)) = read_snapshot_file(&text) {
        l.dir.push((name, id, entries));
      }
    } else {
      for de in serde_yaml::Deserializer::from_str(&text) {
        let v: serde_yaml::Value = serde::Deserialize::deserialize(de).unwrap_or_default();
        let list = |k: &str| -> Vec<String> {
          v.get(k).and_then(|x| x.as_sequence()).map(|s| s.iter().filter_map(|x| x.as_str().map(String::from)).collect()).unwrap_or_default()
        };
        l.tests.push(TestDoc { id: v.get("id").and_then(|x| x.as_str()).unwrap_or("").to_string(), valid: list("valid"), invalid: list("invalid") });
      }
    }
  }
  l
}

fn dir_json(dir: &[(String, String, Vec<(String, String)>)]) -> Value {
  Value::Array(dir.iter().map(|(n, i, es)| json!({"name": n, "id": i, "entries": es.iter().map(|(s, v)| json!([s, v])).collect::<Vec<_>>()})).collect())
}

fn strip_ansi(s: &str) -> String {
  let mut out = String::new();
  let mut it = s.chars();
  while let Some(c) = it.next() {
    if c == '\u{1b}' {
      for d in it.by_ref() {
        if d.is_ascii_alphabetic() {
          break;
        }
      }
    } else {
      out.push(c);
    }
  }
  out
}

#[derive(Clone, Copy)]
struct Flags<'a> {
  skip: bool,
  update: bool,
  filter: Option<&'a str>,
}

/// one real run on the directory: the op result
fn run_real(root: &Path, fl: Flags) -> Value {
  guard(|| {
    let (ret, out) = hook::run_test(root, "rules", "tests", fl.skip, fl.update, fl.filter);
    let txt = strip_ansi(&out);
    let mut not_found = vec![];
    let mut results = vec![];
    for line in txt.lines() {
      if let Some(id) = line.strip_prefix("Configuration not found! ") {
        not_found.push(id.to_string());
      }
      for label in ["PASS", "FAIL", "SKIP"] {
        if let Some(rest) = line.strip_prefix(label).and_then(|r| r.strip_prefix(' ')) {
          // `{case_status} {case_id}  {summary}`
          let (id, summary) = rest.split_once("  ").unwrap_or((rest, ""));
          results.push(json!([id, label, summary]));
        }
      }
    }
    not_found.sort();
    let mut after = load(root).dir;
    after.sort();
    json!({"not_found": not_found, "results": results, "passed": ret.is_ok(), "dir": dir_json(&after)})
  })
}

fn filter_table(filter: Option<&str>, ids: &BTreeSet<String>) -> Value {
  let re = filter.map(|f| regex::Regex::new(f).unwrap());
  Value::Array(ids.iter().map(|i| json!([i, re.as_ref().map(|r| r.is_match(i)).unwrap_or(true)])).collect())
}

/// args of the op = what the model needs (+ the raw files for stand-alone replay)
fn op_args(p: &Proj, root: &Path, fl: Flags) -> (Value, Loaded, Vec<(String, String, Value)>) {
  let l = load(root);
  let mut sources: BTreeSet<String> = BTreeSet::new();
  let mut ids: BTreeSet<String> = p.rule_ids.iter().cloned().collect();
  for t in &l.tests {
    sources.extend(t.valid.iter().cloned());
    sources.extend(t.invalid.iter().cloned());
    ids.insert(t.id.clone());
  }
  for (_, i, _) in &l.dir {
    ids.insert(i.clone());
  }
  let all_ids: Vec<String> = ids.iter().cloned().collect();
  let gen = gen_table(root, &all_ids, &sources);
  // ids `get_rule` finds = ids with a gen row (or, without any source, probed with one)
  let probe = hook::generate(root, "rules", &all_ids.iter().map(|i| (i.clone(), String::new())).collect::<Vec<_>>());
  let rules: Vec<&String> = all_ids.iter().zip(&probe).filter(|(_, r)| r.is_some()).map(|(i, _)| i).collect();
  let files: BTreeMap<String, String> = {
    // the current state of the directory (snapshot files may have been rewritten by earlier runs)
    let mut f = p.files.clone();
    f.retain(|k, _| !k.starts_with("tests/__snapshots__/"));
    for (n, b) in &l.bytes {
      f.insert(format!("tests/__snapshots__/{n}"), String::from_utf8_lossy(b).into_owned());
    }
    f
  };
  let a = json!({
    "rules": rules,
    "gen": gen.iter().map(|(i, s, v)| json!([i, s, v])).collect::<Vec<_>>(),
    "tests": l.tests.iter().map(|t| json!({"id": t.id, "valid": t.valid, "invalid": t.invalid})).collect::<Vec<_>>(),
    "dir": dir_json(&l.dir),
    "skip": fl.skip, "update": fl.update,
    "filter": filter_table(fl.filter, &ids),
    "filter_re": fl.filter,
    "files": files,
  });
  (a, l, gen)
}

struct Kind {
  noncanonical: bool,
  duplicate_id: bool,
  orphan: bool,
}

fn gen_project(idx: usize, rng: &mut Rng) -> (Proj, Kind) {
  let mut p = Proj::default();
  p.files.insert("sgconfig.yml".into(), "ruleDirs: [rules]\ntestConfigs:\n- testDir: tests\n".into());
  let nrules = 1 + rng.below(3);
  let mut kinds = vec![];
  for r in 0..nrules {
    let id = format!("r{r}");
    let kind = if rng.chance(1, 9) { 4 } else { rng.below(4) };
    kinds.push(kind);
    p.files.insert(format!("rules/{id}.yml"), rule_yaml(kind, &id));
    p.rule_ids.push(id);
  }
  // test files: ids shared between files and documents, now and then an id without rule
  let ntests = 1 + rng.below(4);
  let mut docs: Vec<TestDoc> = vec![];
  for t in 0..ntests {
    let ndocs = if rng.chance(1, 4) { 2 } else { 1 };
    let mut text = String::new();
    for d in 0..ndocs {
      let id = if rng.chance(1, 8) { "nope".to_string() } else { rng.pick(&p.rule_ids).clone() };
      let kind = p.rule_ids.iter().position(|r| *r == id).map(|i| kinds[i]).unwrap_or(0);
      let pick = |rng: &mut Rng, want_match: bool| -> Vec<String> {
        (0..rng.below(4))
          .map(|_| {
            // mostly right expectations (so that whole runs pass now and then), some wrong ones
            let s = *rng.pick(POOL);
            if rng.chance(4, 5) && matches_kind(kind, s) != want_match {
              let good: Vec<&&str> = POOL.iter().filter(|s| matches_kind(kind, s) == want_match).collect();
              (**rng.pick(&good)).to_string()
            } else {
              s.to_string()
            }
          })
          .collect()
      };
      let doc = TestDoc { id, valid: pick(rng, false), invalid: pick(rng, true) };
      if d > 0 {
        text += "---\n";
      }
      text += &doc_yaml(&doc, rng);
      docs.push(doc);
    }
    let ext = if rng.chance(1, 5) { "yaml" } else { "yml" };
    p.files.insert(format!("tests/t{t}-test.{ext}"), text);
  }
  // existing snapshots need the gen table: one throw-away materialisation of rules only
  let d = materialize(&p);
  let mut k = Kind { noncanonical: false, duplicate_id: false, orphan: false };
  let mut ids: Vec<String> = p.rule_ids.clone();
  ids.push("nope".into());
  for id in ids {
    let mut sources: BTreeSet<String> = docs.iter().filter(|t| t.id == id).flat_map(|t| t.invalid.iter().cloned()).collect();
    if rng.chance(1, 3) {
      sources.insert("foo(9)".into()); // an entry no test case asks for
    }
    let table = gen_table(d.path(), &[id.clone()], &sources);
    let mut entries: Vec<(String, Value)> = vec![];
    for (_, src, v) in &table {
      if let Some(s) = v.get("snap").and_then(|s| s.as_str()) {
        entries.push((src.clone(), serde_json::from_str(s).unwrap()));
      }
    }
    if id == "nope" {
      entries.push(("foo(1)".into(), json!({"labels": [{"source": "foo(1)", "style": "primary", "start": 0, "end": 6}]})));
    }
    // 0 none, 1-2 right, 3 stale values, 4 partly missing, 5 shuffled + stale
    let odd_names = idx % 4 == 3;
    let state = if odd_names && rng.chance(2, 3) { 3 } else { rng.below(6) };
    if state == 0 {
      continue;
    }
    if state >= 3 {
      for (i, (_, v)) in entries.iter_mut().enumerate() {
        if state == 4 && i % 2 == 0 {
          continue;
        }
        if odd_names || rng.chance(1, 2) {
          match rng.below(3) {
            0 => v["fixed"] = json!("stale()"),
            1 => v["labels"][0]["start"] = json!(1),
            _ => {
              v.as_object_mut().unwrap().remove("fixed");
            }
          }
        }
      }
      if state == 4 {
        let mut i = 0;
        entries.retain(|_| {
          i += 1;
          i % 2 == 1
        });
      }
      if state == 5 {
        entries.reverse();
      }
    }
    let name = if odd_names && rng.chance(3, 4) {
      k.noncanonical = true;
      format!("{}-{id}.yml", if rng.chance(1, 2) { "zz" } else { "aa" })
    } else {
      format!("{id}-snapshot.yml")
    };
    p.files.insert(format!("tests/__snapshots__/{name}"), snapshot_yaml(&id, &entries));
    if idx % 8 == 7 && rng.chance(1, 3) {
      // a second file with the same id
      k.duplicate_id = true;
      let mut e2 = entries.clone();
      for (_, v) in e2.iter_mut() {
        v["labels"][0]["end"] = json!(99);
      }
      p.files.insert(format!("tests/__snapshots__/copy-of-{id}.yml"), snapshot_yaml(&id, &e2));
    }
  }
  if idx % 3 == 0 {
    k.orphan = true;
    p.files.insert(
      "tests/__snapshots__/gone-rule-snapshot.yml".into(),
      "id: gone-rule\nsnapshots:\n  gone(1):\n    labels:\n    - source: gone(1)\n      style: primary\n      start: 0\n      end: 7\n".into(),
    );
  }
  (p, k)
}

fn snapshot_bytes(root: &Path) -> BTreeMap<String, Vec<u8>> {
  let mut m = BTreeMap::new();
  if let Ok(rd) = std::fs::read_dir(root.join("tests/__snapshots__")) {
    for e in rd.flatten() {
      m.insert(e.file_name().to_string_lossy().into_owned(), std::fs::read(e.path()).unwrap_or_default());
    }
  }
  m
}

/// permute what the property says is irrelevant: documents over test files, cases inside lists
fn permuted(p: &Proj, l: &Loaded, rng: &mut Rng) -> Proj {
  let mut q = p.clone();
  q.files.retain(|k, _| !(k.starts_with("tests/") && !k.starts_with("tests/__snapshots__/")));
  let mut docs = l.tests.clone();
  for i in (1..docs.len()).rev() {
    docs.swap(i, rng.below(i + 1));
  }
  for (i, d) in docs.iter_mut().enumerate() {
    for list in [&mut d.valid, &mut d.invalid] {
      for j in (1..list.len()).rev() {
        list.swap(j, rng.below(j + 1));
      }
    }
    // other file names: another walk order
    q.files.insert(format!("tests/{}{i}-test.yml", ["p", "a", "z", "m"][rng.below(4)]), doc_yaml(d, rng));
  }
  q
}

pub fn verify_run(ctx: &Ctx, rng: &mut Rng, o: &mut Out) {
  let n = if ctx.thorough { 3000 } else { 220 };
  let filters = ["^r[01]$", "r1", "nope|r0", "gone"];
  let (mut runs, mut c_utp, mut c_idem, mut c_order, mut c_untouched, mut c_verdict, mut c_fixed) = (0usize, 0usize, 0usize, 0usize, 0usize, 0usize, 0usize);
  for idx in 0..n {
    let mut prng = rng.fork();
    let (p, kind) = gen_project(idx, &mut prng);
    let d = materialize(&p);
    let root = d.path();
    let filter = if prng.chance(1, 5) { Some(*prng.pick(&filters)) } else { None };
    let skip = prng.chance(1, 6);
    let update = !skip && prng.chance(1, 2);
    let fl = Flags { skip, update, filter };
    let class = json!({"noncanonical_name": kind.noncanonical, "duplicate_snapshot_id": kind.duplicate_id, "orphan": kind.orphan, "filter": filter.is_some()});

    // run A: the generated flags
    let before = snapshot_bytes(root);
    let (a, l, gen) = op_args(&p, root, fl);
    let ra = run_real(root, fl);
    o.op("verify_run", a, ra.clone());
    runs += 1;

    // verdict reference (documentation: valid = no finding, invalid = at least one; a rule that is
    // not there has no verdict) on run A
    {
      let has = |id: &str, s: &str| gen.iter().find(|(i, x, _)| i == id && x == s).map(|(_, _, v)| !v.is_null());
      let re = filter.map(|f| regex::Regex::new(f).unwrap());
      let mut want = vec![];
      for t in l.tests.iter().filter(|t| re.as_ref().map(|r| r.is_match(&t.id)).unwrap_or(true)) {
        if gen.iter().all(|(i, _, _)| *i != t.id) && !(t.valid.is_empty() && t.invalid.is_empty()) {
          continue; // no rule
        }
        if t.valid.is_empty() && t.invalid.is_empty() {
          continue; // nothing to say (whether the rule exists is not known to this reference)
        }
        let mut ok = true;
        for s in &t.valid {
          ok &= has(&t.id, s) == Some(false);
        }
        for s in &t.invalid {
          ok &= has(&t.id, s) == Some(true);
        }
        want.push((t.id.clone(), ok));
      }
      // implementation: a result FAILs with N or M exactly when the reference says not ok
      let got: Vec<(String, bool)> = ra["results"]
        .as_array()
        .map(|rs| rs.iter().filter(|r| r[2].as_str().map(|s| !s.is_empty()).unwrap_or(false)).map(|r| (r[0].as_str().unwrap_or("").to_string(), !r[2].as_str().unwrap_or("").contains(['N', 'M']))).collect())
        .unwrap_or_default();
      c_verdict += want.len();
      if want != got {
        o.oracle("verify-verdict", false, json!({"fp": "verify valid/invalid verdict differs from findings", "project": idx, "want": want, "got": got, "class": class}));
      }
    }
    // `fixed` of a generated snapshot = the source with the first match rewritten by the rule's fix
    for (id, src, v) in &gen {
      let Some(s) = v.get("snap").and_then(|s| s.as_str()) else { continue };
      let snap: Value = serde_json::from_str(s).unwrap();
      let text = p.files.get(&format!("rules/{id}.yml")).cloned().unwrap_or_default();
      let want = if text.contains("fix: bar($A)") {
        Some(src.replacen("foo", "bar", 1))
      } else if text.contains("fix: $X === null") {
        Some(src.replacen("==", "===", 1))
      } else if text.contains("fix:") {
        continue;
      } else {
        None
      };
      c_fixed += 1;
      if snap.get("fixed").and_then(|f| f.as_str()).map(String::from) != want {
        o.oracle("verify-fixed", false, json!({"fp": "verify snapshot `fixed` is not the rule's edit", "project": idx, "id": id, "source": src, "snapshot": snap, "want": want}));
      }
    }

    // untouched: files whose id has no (filtered-in) test case keep their bytes, whatever the flags
    {
      let re = filter.map(|f| regex::Regex::new(f).unwrap());
      let tested: BTreeSet<&String> = l.tests.iter().map(|t| &t.id).filter(|i| re.as_ref().map(|r| r.is_match(i)).unwrap_or(true)).collect();
      let after = snapshot_bytes(root);
      for (name, id, _) in &l.dir {
        // (a file that merely carries the name `<T>-snapshot.yml` of a tested id T is T's file)
        if tested.contains(id) || tested.iter().any(|t| *name == format!("{t}-snapshot.yml")) {
          continue;
        }
        c_untouched += 1;
        if before.get(name) != after.get(name) {
          o.oracle("verify-untouched", false, json!({"fp": "verify snapshot file without test case rewritten", "project": idx, "file": name, "class": class}));
        }
      }
      if !update && before != after {
        o.oracle("verify-untouched", false, json!({"fp": "verify snapshot directory changed without --update-all", "project": idx, "class": class}));
      }
    }

    if update {
      // run B: plain `sg test` on what -U wrote
      let flb = Flags { skip: false, update: false, filter };
      let written = snapshot_bytes(root);
      let (b, _, _) = op_args(&p, root, flb);
      let rb = run_real(root, flb);
      o.op("verify_run", b, rb.clone());
      runs += 1;
      c_utp += 1;
      let mismatch: Vec<&Value> = rb["results"].as_array().map(|rs| rs.iter().filter(|r| r[2].as_str().unwrap_or("").contains('W')).collect()).unwrap_or_default();
      if !mismatch.is_empty() || rb == json!("panic") {
        let fp = if kind.noncanonical || kind.duplicate_id {
          "verify update-then-test: snapshot file not named <id>-snapshot.yml"
        } else {
          "verify update-then-test: snapshot mismatch after --update-all"
        };
        o.oracle("verify-update-then-pass", false, json!({"fp": fp, "project": idx, "mismatch": mismatch, "class": class, "files": p.files}));
      }
      // run C: -U again rewrites the same bytes
      let (c, _, _) = op_args(&p, root, fl);
      let rc = run_real(root, fl);
      o.op("verify_run", c, rc);
      runs += 1;
      c_idem += 1;
      let again = snapshot_bytes(root);
      if again != written {
        let fp = if kind.noncanonical || kind.duplicate_id {
          "verify second --update-all rewrites: snapshot file not named <id>-snapshot.yml"
        } else {
          "verify second --update-all changes snapshot bytes"
        };
        let changed: Vec<&String> = again.keys().filter(|k| again.get(*k) != written.get(*k)).collect();
        o.oracle("verify-update-idempotent", false, json!({"fp": fp, "project": idx, "changed": changed, "class": class}));
      }
      // permuted test files: same verdict, same bytes
      if !kind.duplicate_id && !kind.noncanonical {
        let q = permuted(&p, &l, &mut prng);
        let dq = materialize(&q);
        let (aq, _, _) = op_args(&q, dq.path(), fl);
        let rq = run_real(dq.path(), fl);
        o.op("verify_run", aq, rq.clone());
        runs += 1;
        c_order += 1;
        let bytes_q = snapshot_bytes(dq.path());
        if rq["passed"] != ra["passed"] || bytes_q != written {
          let changed: Vec<&String> = bytes_q.keys().filter(|k| bytes_q.get(*k) != written.get(*k)).collect();
          o.oracle("verify-order", false, json!({"fp": "verify permuted test files change verdict or snapshot bytes", "project": idx, "passed": [ra["passed"], rq["passed"]], "changed": changed, "class": class}));
        }
      }
    } else if !skip && !kind.duplicate_id {
      // permuted test files without -U: same verdict
      let q = permuted(&p, &l, &mut prng);
      let dq = materialize(&q);
      let rq = run_real(dq.path(), fl);
      c_order += 1;
      if rq["passed"] != ra["passed"] {
        o.oracle("verify-order", false, json!({"fp": "verify permuted test files change verdict or snapshot bytes", "project": idx, "passed": [ra["passed"], rq["passed"]], "class": class}));
      }
    }
  }
  o.op("info:verify_runs", json!({"projects": n, "runs": runs}), Value::Null);
  o.oracle("verify-verdict", true, json!({"cases": c_verdict}));
  o.oracle("verify-fixed", true, json!({"cases": c_fixed}));
  o.oracle("verify-untouched", true, json!({"cases": c_untouched}));
  o.oracle("verify-update-then-pass", true, json!({"cases": c_utp}));
  o.oracle("verify-update-idempotent", true, json!({"cases": c_idem}));
  o.oracle("verify-order", true, json!({"cases": c_order}));
}

/// replay: materialise the recorded files, run the real runner with the recorded flags
pub fn exec(op: &str, a: &Value) -> Option<Value> {
  if op != "verify_run" {
    return None;
  }
  let mut p = Proj::default();
  for (k, v) in a["files"].as_object()? {
    p.files.insert(k.clone(), v.as_str().unwrap_or("").to_string());
  }
  let d = materialize(&p);
  let fl = Flags { skip: a["skip"].as_bool().unwrap_or(false), update: a["update"].as_bool().unwrap_or(false), filter: a["filter_re"].as_str() };
  Some(run_real(d.path(), fl))
}
