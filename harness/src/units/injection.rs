//! Embedded-language extraction (slice "injection"; properties C01, C13, C16, C19).
//!  * op `injection`: on a generated page / script, the REAL `Html::extract_injections` (public API),
//!    the CLI's `extract_injections` (merge with `languageInjections` + sort), `Root::get_injections`,
//!    `filter_file_rule` (sg scan) and `filter_file_pattern` (sg run) vs the Lean model
//!    (`Model/Injection.lean`) run on the dumped host tree. What the injection rules match
//!    (`root.find_all(rule)`, `$CONTENT`, `$LANG`) is a parameter of the model, computed here by
//!    the real matcher. The iteration order of the hash maps inside the calls cannot be observed
//!    from outside: it is recovered from the result (`order_*`) and handed to the model.
//!  * oracles on the implementation alone: regions sorted / disjoint / inside the file / on
//!    character boundaries; on pages whose layout the generator knows, the regions are exactly the
//!    element bodies, each once, under the expected name; one document per accepted name whose
//!    included ranges are the regions; the real CLI reports every embedded finding exactly once.
use super::print::{run_cli, CliOut};
use super::Ctx;
use crate::treedump;
use crate::util::*;
use ast_grep::verif_hooks_injection as hooks;
use ast_grep_core::verif_hooks_injection::ranges_accepted;
use ast_grep_core::{Language, Pattern};
use ast_grep_language::SupportLang;
use serde_json::{json, Value};
use std::collections::BTreeMap;
use std::str::FromStr;
use std::time::Duration;

/// input classes: FP_OVERLAP is a recorded finding; FP_ALIAS was repaired in /repo ("scan a
/// language once" in `filter_file_rule`) — configuration `html-alias` below and the `html-alias`
/// project of `cli_findings` are the guard: with the repair reverted, `inj-file-documents` and
/// `inj-findings-once` fail with this fingerprint and the op `injection` disagrees with the model
const FP_OVERLAP: &str = "injection: languageInjections rules bind overlapping $CONTENT nodes, no document is made for the language";
const FP_ALIAS: &str = "injection: a language injectable under two names, its documents are scanned twice";

const KIND_NAMES: [&str; 6] = ["script_element", "style_element", "raw_text", "attribute", "attribute_name", "attribute_value"];

/// the ids `KindMatcher::new(name, Html)` resolves
fn html_kinds() -> Vec<u64> {
  let l = SupportLang::Html.get_ts_language();
  KIND_NAMES.iter().map(|n| l.id_for_node_kind(n, true) as u64).collect()
}

/// `languageInjections` configurations (YAML lists). The first is "no configuration".
pub const CONFIGS: [(&str, &str); 8] = [
  ("none", "[]"),
  // two rules injecting the same language: their regions interleave in the file
  ("styled-two-rules", "- hostLanguage: js\n  rule: {pattern: 'styled.$TAG`$CONTENT`'}\n  injected: css\n- hostLanguage: js\n  rule: {pattern: 'styled($$$ARGS)`$CONTENT`'}\n  injected: css\n"),
  // dynamic: the tag names the language; unknown names are dropped
  ("dynamic-tag", "- hostLanguage: js\n  rule: {pattern: '$LANG`$CONTENT`'}\n  injected: [css, html, ts]\n"),
  // static and dynamic rule for the same template, and a rule without $CONTENT
  ("static+dynamic", "- hostLanguage: js\n  rule: {pattern: 'css`$CONTENT`'}\n  injected: css\n- hostLanguage: js\n  rule: {pattern: '$LANG`$CONTENT`'}\n  injected: [css, html]\n- hostLanguage: js\n  rule: {pattern: 'sql`$X`'}\n  injected: css\n"),
  // overlapping matches: the argument of a call, calls nest
  ("nested-content", "- hostLanguage: js\n  rule: {pattern: 'css($CONTENT)'}\n  injected: css\n"),
  // html host: text nodes as javascript — a second NAME (`javascript`) for a language the host
  // injects already as `js`: the documents of that language are scanned once all the same
  ("html-alias", "- hostLanguage: html\n  rule: {kind: text, pattern: $CONTENT}\n  injected: javascript\n"),
  // html host: a rule that repeats the built-in extraction
  ("html-repeat-builtin", "- hostLanguage: html\n  rule: {kind: raw_text, pattern: $CONTENT, inside: {kind: script_element}}\n  injected: js\n"),
  // html host, dynamic with a default-less rule and no $LANG: never contributes
  ("html-no-lang", "- hostLanguage: html\n  rule: {kind: raw_text, pattern: $CONTENT}\n  injected: [js, css]\n"),
];

fn cfg_text(name: &str) -> &'static str {
  CONFIGS.iter().find(|c| c.0 == name).map(|c| c.1).unwrap_or("[]")
}

fn ranges_json(v: &[(usize, usize)]) -> Value {
  json!(v.iter().map(|r| json!([r.0, r.1])).collect::<Vec<_>>())
}

/// an injected document as the comparison sees it: (language, name of the region vector it was
/// parsed from). The name is attributed: by position for `get_injections` (the i-th document
/// belongs to the i-th name that `get_lang` accepted and whose regions the parser accepts), by
/// equality of the whole tree for the documents of a file.
type Doc = (String, String);

/// language + every node (kind, start, end) in pre-order: equal for equal (language, regions)
fn print_of(g: &hooks::Grep) -> (String, Vec<(u16, usize, usize)>) {
  (g.lang().to_string(), g.root().dfs().map(|n| (n.kind_id(), n.range().start, n.range().end)).collect())
}

fn docs_json(v: &[Doc]) -> Value {
  json!(v.iter().map(|d| json!([d.0, d.1])).collect::<Vec<_>>())
}

/// names of `docs` in order of first appearance, then the other names of the map
fn infer_order(map: &BTreeMap<String, Vec<(usize, usize)>>, docs: &[Doc]) -> Vec<String> {
  let mut order: Vec<String> = vec![];
  for d in docs {
    if map.contains_key(&d.1) && !order.contains(&d.1) {
      order.push(d.1.clone());
    }
  }
  for n in map.keys() {
    if !order.contains(n) {
      order.push(n.clone());
    }
  }
  order
}

struct Real {
  builtin: Option<BTreeMap<String, Vec<(usize, usize)>>>,
  map: BTreeMap<String, Vec<(usize, usize)>>,
  known: BTreeMap<String, Option<String>>,
  /// the names in the order `get_injections` enumerated them
  asked: Vec<String>,
  docs: Vec<Doc>,
  /// nodes with text of a document outside the regions it is attributed to
  stray: Vec<Value>,
  scan_host_ok: bool,
  scan: Vec<Doc>,
  run_host: bool,
  run: Vec<Doc>,
  injectable: Option<Vec<String>>,
  subs: Vec<String>,
}

const SUB_NAMES: [&str; 5] = ["javascript", "css", "typescript", "tsx", "html"];

fn accepted(rs: &[(usize, usize)]) -> bool {
  let v: Vec<(u32, u32)> = rs.iter().map(|r| (r.0 as u32, r.1 as u32)).collect();
  ranges_accepted(&v).unwrap_or(false)
}

/// every call of the real code for one case (the configuration must be registered)
fn real(host: &str, src: &str, sub_mask: u64) -> Option<(hooks::Grep, Real)> {
  let grep = hooks::parse(src, host)?;
  let builtin = if host == "html" {
    let doc = SupportLang::Html.ast_grep(src);
    let m = SupportLang::Html.extract_injections(doc.root());
    Some(m.into_iter().map(|(k, v)| (k, v.iter().map(|r| (r.start_byte() as usize, r.end_byte() as usize)).collect())).collect())
  } else {
    None
  };
  let map: BTreeMap<String, Vec<(usize, usize)>> = hooks::extract(&grep).into_iter().collect();
  let known: BTreeMap<String, Option<String>> = map.keys().map(|k| (k.clone(), hooks::known(k))).collect();
  let (asked, real_docs) = hooks::documents(&grep);
  // the names that must have survived, in enumeration order
  let survivors: Vec<&String> = asked.iter().filter(|n| known.get(*n).cloned().flatten().is_some() && map.get(*n).map(|rs| accepted(rs)).unwrap_or(false)).collect();
  let mut prints: Vec<((String, Vec<(u16, usize, usize)>), String)> = vec![];
  let mut docs: Vec<Doc> = vec![];
  let mut stray = vec![];
  for (i, g) in real_docs.iter().enumerate() {
    let name = if survivors.len() == real_docs.len() { survivors[i].clone() } else { "?".to_string() };
    docs.push((g.lang().to_string(), name.clone()));
    prints.push((print_of(g), name.clone()));
    if let Some(rs) = map.get(&name) {
      for n in g.root().dfs() {
        let r = n.range();
        // (a token may run across the gap between two regions: tree-sitter reads the regions as one text)
        let inside = |p: usize| rs.iter().any(|x| x.0 <= p && p <= x.1);
        if n.is_leaf() && r.start < r.end && !(inside(r.start) && inside(r.end)) {
          stray.push(json!({"name": name, "node": [r.start, r.end]}));
        }
      }
    }
  }
  let attribute = |gs: &[hooks::Grep]| -> Vec<Doc> {
    let mut used: Vec<usize> = vec![];
    gs.iter()
      .map(|g| {
        let p = print_of(g);
        // two names may have identical documents (a rule repeating the built-in extraction of a
        // `<script lang='Js'>`: same language, same regions): each is attributed once before any is
        // attributed again; a document scanned twice is attributed to the same name twice
        let hit = prints.iter().enumerate().position(|(i, x)| x.0 == p && !used.contains(&i)).or_else(|| prints.iter().position(|x| x.0 == p));
        if let Some(i) = hit {
          used.push(i);
        }
        (g.lang().to_string(), hit.map(|i| prints[i].1.clone()).unwrap_or_else(|| "?".into()))
      })
      .collect()
  };
  let dir = tempfile::tempdir().ok()?;
  let path = dir.path().join(if host == "html" { "page.html" } else { "page.js" });
  std::fs::write(&path, src).ok()?;
  let scanned: Vec<hooks::Grep> = hooks::scan_documents(&path).ok()?;
  let scan_host_ok = scanned.first().map(|g| g.source() == src && g.lang().to_string() == grep.lang().to_string()).unwrap_or(false);
  let scan: Vec<Doc> = attribute(&scanned[scanned.len().min(1)..]);
  let sub_names: Vec<&str> = SUB_NAMES.iter().enumerate().filter(|(i, _)| sub_mask >> i & 1 == 1).map(|(_, s)| *s).collect();
  // sub matchers exist for the languages in which the pattern parses
  let subs: Vec<String> = sub_names
    .iter()
    .filter(|s| SupportLang::from_str(s).ok().map(|l| Pattern::try_new("$A", l).is_ok()).unwrap_or(false))
    .filter_map(|s| hooks::known(s))
    .collect();
  let (run_host, run_all) = hooks::run_documents(&path, "$A", &sub_names).ok()?;
  let run: Vec<Doc> = attribute(&run_all[(if run_host { 1 } else { 0 }).min(run_all.len())..]);
  let injectable = hooks::injectable(&grep);
  Some((grep, Real { builtin, map, known, asked, docs, stray, scan_host_ok, scan, run_host, run, injectable, subs }))
}

fn result_json(r: &Real) -> Value {
  let m = |m: &BTreeMap<String, Vec<(usize, usize)>>| json!(m.iter().map(|(k, v)| json!([k, ranges_json(v)])).collect::<Vec<_>>());
  json!({
    "html": r.builtin.as_ref().map(m),
    "map": m(&r.map),
    "docs": docs_json(&r.docs),
    "scan": docs_json(&r.scan),
    "run": docs_json(&r.run),
  })
}

/// arguments of op `injection`: everything the model needs, computed from the real tree / matcher
fn build_args(host: &str, cfg: &str, src: &str, sub_mask: u64, grep: &hooks::Grep, r: &Real) -> Value {
  let root = grep.root();
  let (dump, ids) = treedump::dump(&root);
  let rules: Vec<Value> = hooks::rule_matches(grep)
    .into_iter()
    .map(|(d, ms)| {
      let ms: Vec<Value> = ms.into_iter().map(|(c, l)| json!([c.map(|(id, _, _)| *ids.0.get(&id).expect("node of the document")), l])).collect();
      json!({"d": d, "ms": ms})
    })
    .collect();
  json!({
    "host": host, "cfg": cfg, "src": src, "sub_mask": sub_mask,
    "tree": dump,
    "kinds": if host == "html" { json!(html_kinds()) } else { Value::Null },
    "rules": rules,
    "known": r.known.iter().map(|(k, v)| json!([k, v])).collect::<Vec<_>>(),
    "injectable": r.injectable,
    "known_names": r.injectable.clone().unwrap_or_default().iter().map(|n| json!([n, hooks::known(n)])).collect::<Vec<_>>(),
    "subs": r.subs,
    "order_docs": r.asked,
    "order_scan": infer_order(&r.map, &r.scan),
    "order_run": infer_order(&r.map, &r.run),
  })
}

// ---------------------------------------------------------------- generators

/// one piece of a generated page: text and, for a script / style element, the name its body is
/// expected under and the body's offset / length inside the piece
struct Piece {
  text: String,
  body: Option<(String, usize, usize)>,
  /// the layout of this piece is outside what the reference below understands
  wild: bool,
}

const JS_BODIES: [&str; 7] = ["foo(1)", "\n  foo(2);\n  bar('\u{e9}')\n", "let x = foo(3) // \u{4e2d}\u{6587}", " ", "foo((", "\r\nfoo(4)\r\n", "const s = '<p>'; foo(5)"];
const CSS_BODIES: [&str; 5] = [".a { margin: 0 }", "\n  a { color: red; }\n  /* \u{e9} */\n", " ", ".b { content: '\u{1d4b3}' }", "a {"];

fn element(rng: &mut Rng) -> Piece {
  let script = rng.chance(3, 5);
  let tag = if script { "script" } else { "style" };
  let dflt = if script { "js" } else { "css" };
  let body: String = if rng.chance(1, 8) { String::new() } else if script { (*rng.pick(&JS_BODIES)).to_string() } else { (*rng.pick(&CSS_BODIES)).to_string() };
  let names = ["js", "ts", "tsx", "css", "javascript", "typescript", "scss", "xxx", "Js", "j\u{e9}"];
  let name = *rng.pick(&names);
  // (attribute text, expected language name)
  let (attrs, lang): (String, String) = match rng.below(12) {
    0 | 1 | 2 => (String::new(), dflt.into()),
    3 => (format!(" lang=\"{name}\""), name.into()),
    4 => (format!(" lang='{name}'"), name.into()),
    5 => (format!(" lang={name}"), name.into()),
    6 => (format!(" type=\"module\" lang=\"{name}\" defer"), name.into()),
    7 => (format!("\n  lang = \"{name}\"\n"), name.into()),
    // the attribute name is compared case-sensitively; `data-lang` is another attribute
    8 => (format!(" LANG=\"{name}\" data-lang=\"{name}\""), dflt.into()),
    // an empty value does not decide: the next `lang` attribute does
    9 => (format!(" lang=\"\" lang=\"{name}\""), name.into()),
    10 => (" lang".to_string(), dflt.into()),
    _ => (format!(" lang=\"{name}\" lang=\"ts\""), name.into()),
  };
  let open = format!("<{tag}{attrs}>");
  let text = format!("{open}{body}</{tag}>");
  let blen = body.len();
  // an element without text has an empty raw text (a zero-width region)
  Piece { body: Some((lang, open.len(), blen)), text, wild: false }
}

fn filler(rng: &mut Rng) -> Piece {
  let t = *rng.pick(&[
    "<p>h\u{e9}llo \u{4e2d}\u{6587} \u{1d4b3}</p>",
    "\n",
    "\r\n",
    "<div class=\"a\" lang=\"ts\">text</div>",
    "<!-- a comment -->",
    "<br>",
    "<ul>\n  <li>one</li>\n</ul>",
    "plain text &amp; more",
    "<input lang=js>",
  ]);
  Piece { text: t.to_string(), body: None, wild: false }
}

/// constructs the reference does not interpret: elements inside comments, broken tags
fn wild(rng: &mut Rng) -> Piece {
  let t = *rng.pick(&[
    "<!-- <script>foo(6)</script> -->",
    "<script lang=\"ts>foo(7)</script>",
    "</script>",
    "<div",
    "<script>foo(8)",
    "<style>.c {}",
    "<textarea><script>foo(9)</script></textarea>",
    "<script lang=ts",
    "<svg><style>.d{}</style></svg>",
    "<template><script>foo(10)</script></template>",
    "<script><!-- foo(11) --></script>",
    "<p <script>foo(12)</script>",
  ]);
  Piece { text: t.to_string(), body: None, wild: true }
}

/// a page with `n` script / style elements; `Some(expected)` when every piece is understood
fn gen_page(rng: &mut Rng, n: usize, allow_wild: bool) -> (String, Option<Vec<(String, usize, usize)>>) {
  let mut pieces: Vec<Piece> = vec![];
  let mut depth: Vec<&str> = vec![];
  let mut left = n;
  if rng.chance(1, 2) {
    pieces.push(Piece { text: "<!DOCTYPE html>\n<html>\n<body>\n".into(), body: None, wild: false });
    depth.push("</body>\n</html>\n");
  }
  let mut guard = 0;
  while left > 0 || guard < 2 {
    guard += 1;
    match rng.below(10) {
      0..=3 if left > 0 => {
        pieces.push(element(rng));
        left -= 1;
      }
      4 | 5 => pieces.push(filler(rng)),
      6 if depth.len() < 4 => {
        let (o, c) = *rng.pick(&[("<div>", "</div>"), ("<section id=\"s\">\n", "</section>\n"), ("<p><b>", "</b></p>"), ("<table><tr><td>", "</td></tr></table>")]);
        pieces.push(Piece { text: o.into(), body: None, wild: false });
        depth.push(c);
      }
      7 if !depth.is_empty() => {
        let c = depth.pop().unwrap();
        pieces.push(Piece { text: c.into(), body: None, wild: false });
      }
      8 if allow_wild => pieces.push(wild(rng)),
      _ => {
        if left > 0 {
          pieces.push(element(rng));
          left -= 1;
        }
      }
    }
    if guard > 60 {
      break;
    }
  }
  while let Some(c) = depth.pop() {
    pieces.push(Piece { text: c.into(), body: None, wild: false });
  }
  let mut page = String::new();
  let mut expected = vec![];
  let mut clean = true;
  for p in &pieces {
    if p.wild {
      clean = false;
    }
    if let Some((l, off, len)) = &p.body {
      expected.push((l.clone(), page.len() + off, page.len() + off + len));
    }
    page.push_str(&p.text);
  }
  (page, if clean { Some(expected) } else { None })
}

fn gen_script(rng: &mut Rng) -> String {
  let nl = if rng.chance(1, 4) { "\r\n" } else { "\n" };
  let n = 1 + rng.below(6);
  let mut s = String::new();
  for k in 0..n {
    let stmt = match rng.below(12) {
      0 => format!("const A{k} = styled.div`color: red; /* \u{e9} */`"),
      1 => format!("const B{k} = styled(Button,{nl}  Other)`{nl}  margin: 0;{nl}`"),
      2 => "css`a { b: c }`".to_string(),
      3 => "html`<p>x</p>`".to_string(),
      4 => "xxx`q`".to_string(),
      5 => "css(css(x))".to_string(),
      6 => "css(a, b); css(y)".to_string(),
      7 => "// h\u{e9} \u{4e2d}".to_string(),
      8 => "ts`let a: number = 1`".to_string(),
      9 => "sql`select 1`".to_string(),
      10 => "styled.a.b`x: y`; foo(`plain`)".to_string(),
      _ => "css``; foo((".to_string(),
    };
    s.push_str(&stmt);
    s.push_str(nl);
  }
  s
}

// ---------------------------------------------------------------- oracles

struct Tally {
  name: &'static str,
  cases: usize,
}
impl Tally {
  fn fail(&self, o: &mut Out, fp: String, detail: Value) {
    let mut d = detail;
    d["fp"] = json!(fp);
    o.oracle(self.name, false, d);
  }
  fn finish(&self, o: &mut Out) {
    o.oracle(self.name, true, json!({"cases": self.cases}));
  }
}

/// the structural clauses: every region is a range of the file on character boundaries, the
/// regions of one name are sorted and pairwise disjoint
fn regions_defect(src: &str, map: &BTreeMap<String, Vec<(usize, usize)>>) -> Option<&'static str> {
  for rs in map.values() {
    if rs.is_empty() {
      return Some("a language name without region");
    }
    let mut prev = 0usize;
    for (i, (s, e)) in rs.iter().enumerate() {
      if !(s <= e && *e <= src.len() && src.is_char_boundary(*s) && src.is_char_boundary(*e)) {
        return Some("a region is no character range of the file");
      }
      if i > 0 && *s < prev {
        return Some("regions of one language overlap or are not sorted");
      }
      prev = *e;
    }
  }
  None
}

// ---------------------------------------------------------------- the unit

fn one_case(o: &mut Out, host: &str, cfg: &str, src: &str, sub_mask: u64, expected: Option<&Vec<(String, usize, usize)>>, t: &mut [Tally; 5]) {
  if src.is_empty() {
    return; // the CLI does not read empty files
  }
  let Some((grep, r)) = real(host, src, sub_mask) else {
    o.oracle("inj-regions", false, json!({"fp": "the harness could not run the extraction", "host": host, "cfg": cfg, "src": src}));
    return;
  };
  let a = build_args(host, cfg, src, sub_mask, &grep, &r);
  o.op("injection", a, result_json(&r));
  let class = format!("host={host} cfg={cfg}");
  // the model resolves the six kind names to one id each: in this tree a node has the name iff it
  // has the id
  if host == "html" {
    t[4].cases += 1;
    let ids = html_kinds();
    for n in grep.root().dfs() {
      for (i, name) in KIND_NAMES.iter().enumerate() {
        if (n.kind() == *name) != (n.kind_id() as u64 == ids[i]) {
          t[4].fail(o, format!("kind name {name} and its id disagree on a node of an HTML tree"), json!({"src": src, "node": [n.range().start, n.range().end]}));
        }
      }
    }
  }
  // (1) regions
  t[0].cases += 1;
  if let Some(d) = regions_defect(src, &r.map) {
    // overlapping `$CONTENT` nodes of `languageInjections` rules are one class, whatever the rules
    let fp = if cfg != "none" && d.starts_with("regions of one language overlap") { FP_OVERLAP.to_string() } else { format!("{d}: {class}") };
    t[0].fail(o, fp, json!({"src": src, "cfg": cfg, "map": result_json(&r)["map"]}));
  }
  // (2) regions = element bodies, each once, under the expected name
  if let Some(exp) = expected {
    if cfg == "none" || host != "html" {
      t[1].cases += 1;
      let mut want: Vec<(String, usize, usize)> = exp.clone();
      want.sort();
      let mut got: Vec<(String, usize, usize)> = r.map.iter().flat_map(|(k, v)| v.iter().map(move |x| (k.clone(), x.0, x.1))).collect();
      got.sort();
      if want != got {
        let quoting = exp.iter().zip(got.iter()).any(|(w, g)| w.0 != g.0);
        t[1].fail(o, format!("regions of a page differ from its element bodies (names differ: {quoting}): {class}"), json!({"src": src, "expected": want, "got": got}));
      }
    }
  }
  // (3) one document per name of a known language, parsed from exactly the regions of that name
  t[2].cases += 1;
  let mut want_docs: Vec<Doc> = r.map.keys().filter_map(|k| r.known[k].clone().map(|l| (l, k.clone()))).collect();
  want_docs.sort();
  let mut got_docs = r.docs.clone();
  got_docs.sort();
  if want_docs != got_docs {
    let overlapping = r.map.values().any(|rs| rs.windows(2).any(|w| w[1].0 < w[0].1));
    let fp = if overlapping && cfg != "none" { FP_OVERLAP.to_string() } else { format!("regions of a known language did not become exactly one document: {class}") };
    t[2].fail(o, fp, json!({"src": src, "cfg": cfg, "map": result_json(&r)["map"], "docs": docs_json(&r.docs)}));
  }
  if !r.stray.is_empty() {
    t[2].fail(o, format!("an injected document has text outside its regions: {class}"), json!({"src": src, "stray": r.stray}));
  }
  let mut asked = r.asked.clone();
  asked.sort();
  if asked != r.map.keys().cloned().collect::<Vec<_>>() {
    t[2].fail(o, format!("get_injections does not enumerate every name once: {class}"), json!({"src": src, "asked": r.asked}));
  }
  // (4) the documents of the file as `sg scan` / `sg run` search them: the host document first, then
  // every injected document exactly once
  t[3].cases += 1;
  if !r.scan_host_ok {
    t[3].fail(o, format!("the first document of a file is not the host document: {class}"), json!({"src": src}));
  }
  let inj_langs: Vec<String> = r.injectable.clone().unwrap_or_default().iter().filter_map(|n| hooks::known(n)).collect();
  let mut want_scan: Vec<Doc> = r.docs.iter().filter(|d| inj_langs.contains(&d.0)).cloned().collect();
  want_scan.sort();
  let mut got_scan = r.scan.clone();
  got_scan.sort();
  if want_scan != got_scan {
    let mut names: Vec<String> = inj_langs.clone();
    names.sort();
    let dup = names.windows(2).any(|w| w[0] == w[1]);
    let fp = if dup { FP_ALIAS.to_string() } else { format!("sg scan does not search every injected document exactly once: {class}") };
    t[3].fail(o, fp, json!({"src": src, "cfg": cfg, "injectable": r.injectable, "docs": docs_json(&r.docs), "scanned": docs_json(&r.scan)}));
  }
  let mut want_run: Vec<Doc> = r.docs.iter().filter(|d| r.subs.contains(&d.0)).cloned().collect();
  want_run.sort();
  let mut got_run = r.run.clone();
  got_run.sort();
  if want_run != got_run || !r.run_host {
    t[3].fail(o, format!("sg run does not search every injected document exactly once: {class}"), json!({"src": src, "docs": docs_json(&r.docs), "searched": docs_json(&r.run)}));
  }
}

pub fn injection(ctx: &Ctx, rng: &mut Rng, o: &mut Out) {
  let mut t = [
    Tally { name: "inj-regions", cases: 0 },
    Tally { name: "inj-bodies", cases: 0 },
    Tally { name: "inj-documents", cases: 0 },
    Tally { name: "inj-file-documents", cases: 0 },
    Tally { name: "inj-kinds", cases: 0 },
  ];
  let scale = if ctx.thorough { 20 } else { 1 };
  // HTML pages without configuration
  let _ = hooks::register(cfg_text("none"));
  for fixed in [
    "<script></script>",
    "<script>a</script><style>.a{}</style>",
    "<script lang='ts'>a</script><script lang=ts>.a{}</script><style lang=scss></style><style lang=\"scss\"></style>",
    // a style in script clothing before a script: the library's vector is not sorted
    "<style lang=\"js\">foo(1)</style>\n<script>foo(2)</script>\n",
    "<script>foo(1)</script>\n<script lang=\"javascript\">foo(2)</script>\n<script lang=\"js\">\n  foo(3)</script>\n",
  ] {
    one_case(o, "html", "none", fixed, 0b11111, None, &mut t);
  }
  for i in 0..(260 * scale) {
    let n = if i < 7 { i } else { rng.below(7) };
    let (page, exp) = gen_page(rng, n, i % 3 == 2);
    let mask = rng.below(32) as u64;
    one_case(o, "html", "none", &page, mask, exp.as_ref(), &mut t);
  }
  // projects with `languageInjections`
  for (name, text) in CONFIGS.iter().skip(1) {
    if let Err(e) = hooks::register(text) {
      o.oracle("inj-regions", false, json!({"fp": format!("configuration {name} is rejected"), "error": e.to_string()}));
      continue;
    }
    let html_host = text.contains("hostLanguage: html");
    for _ in 0..(14 * scale) {
      let mask = rng.below(32) as u64;
      if html_host {
        let n = rng.below(5);
        let (page, _) = gen_page(rng, n, false);
        one_case(o, "html", name, &page, mask, None, &mut t);
      } else {
        let s = gen_script(rng);
        one_case(o, "javascript", name, &s, mask, None, &mut t);
      }
    }
    // the other host is untouched by this configuration
    let (page, exp) = gen_page(rng, 3, false);
    if !html_host {
      one_case(o, "html", name, &page, 0b11111, exp.as_ref(), &mut t);
    }
  }
  let _ = hooks::register(cfg_text("none"));
  // the acceptance test of the parser against the model's `rangesAccepted`
  for i in 0..(120 * scale) {
    let n = if i < 3 { i } else { rng.below(6) };
    let mut rs: Vec<(u32, u32)> = vec![];
    let mut at = rng.below(4) as u32;
    for _ in 0..n {
      let len = rng.below(4) as u32;
      match rng.below(8) {
        0 => rs.push((at + len, at)),                     // ends before it starts
        1 => rs.push((at.saturating_sub(1 + rng.below(3) as u32), at + len)), // reaches back
        _ => rs.push((at, at + len)),
      }
      at = at + len + rng.below(3) as u32;
    }
    let a = json!({"ranges": rs.iter().map(|r| json!([r.0, r.1])).collect::<Vec<_>>()});
    let r = exec("ranges_accepted", &a).unwrap_or(Value::Null);
    o.op("ranges_accepted", a, r);
  }
  for x in &t {
    x.finish(o);
  }
  cli_findings(ctx, rng, o);
}

/// End to end: `sg scan --json=stream` reports every call `foo(N)` written in a script element of a
/// known language exactly once — N is unique per page, so the records can be counted per element.
fn cli_findings(ctx: &Ctx, rng: &mut Rng, o: &mut Out) {
  let t = Tally { name: "inj-findings-once", cases: 0 };
  let mut cases = 0usize;
  for (cfg_name, cfg) in [("none", ""), ("html-alias", "languageInjections:\n- hostLanguage: html\n  rule: {kind: text, pattern: $CONTENT}\n  injected: javascript\n")] {
    let dir = tempfile::tempdir().expect("tempdir");
    let w = |rel: &str, text: &str| {
      let p = dir.path().join(rel);
      std::fs::create_dir_all(p.parent().unwrap()).unwrap();
      std::fs::write(p, text).unwrap();
    };
    w("sgconfig.yml", &format!("ruleDirs: [rules]\n{cfg}"));
    w("rules/call.yml", "id: js-call\nlanguage: JavaScript\nseverity: hint\nmessage: call\nrule: {pattern: 'foo($A)'}\n");
    w("rules/tcall.yml", "id: ts-call\nlanguage: TypeScript\nseverity: hint\nmessage: call\nrule: {pattern: 'foo($A)'}\n");
    let pages = if ctx.thorough { 40 } else { 8 };
    let mut want: BTreeMap<(String, String), usize> = BTreeMap::new();
    for k in 0..pages {
      let mut page = String::new();
      let n = 1 + rng.below(5);
      for j in 0..n {
        let id = k * 100 + j;
        let (attr, counted) = *rng.pick(&[("", true), (" lang=\"js\"", true), (" lang=\"javascript\"", true), (" lang='ts'", true), (" lang=typescript", true), (" lang=\"xxx\"", false), (" lang=\"css\"", false)]);
        page.push_str(&format!("<div>\n<script{attr}>\n  foo({id})\n</script>\n</div>\n"));
        if counted {
          want.insert((format!("src/p{k}.html"), format!("foo({id})")), 1);
        }
      }
      w(&format!("src/p{k}.html"), &page);
    }
    let out = run_cli(&["scan".to_string(), "--json=stream".to_string(), "src".to_string()], dir.path(), Duration::from_secs(60));
    let stdout = match out {
      CliOut::Done { stdout, .. } => String::from_utf8_lossy(&stdout).to_string(),
      CliOut::Hang => {
        t.fail(o, format!("scan of pages with embedded scripts hangs: cfg={cfg_name}"), json!({}));
        continue;
      }
    };
    let mut got: BTreeMap<(String, String), usize> = BTreeMap::new();
    for line in stdout.lines().filter(|l| !l.trim().is_empty()) {
      let Ok(v) = serde_json::from_str::<Value>(line) else { continue };
      let file = v["file"].as_str().unwrap_or("").trim_start_matches("./").to_string();
      *got.entry((file, v["text"].as_str().unwrap_or("").to_string())).or_default() += 1;
    }
    cases += want.len();
    if got != want {
      let twice = got.values().any(|c| *c > 1);
      let lost = want.keys().any(|k| !got.contains_key(k));
      t.fail(
        o,
        if twice && !lost && cfg_name == "html-alias" { FP_ALIAS.to_string() } else { format!("embedded findings are not reported exactly once (reported twice: {twice}, lost: {lost}): cfg={cfg_name}") },
        json!({"expected": want.len(), "reported": got.values().sum::<usize>(), "example": got.iter().find(|(_, c)| **c > 1).map(|(k, c)| json!([k.0, k.1, c]))}),
      );
    }
  }
  o.oracle(t.name, true, json!({"cases": cases}));
}

pub fn exec(op: &str, a: &Value) -> Option<Value> {
  if op == "ranges_accepted" {
    let rs: Vec<(u32, u32)> = a["ranges"].as_array().cloned().unwrap_or_default().iter().map(|r| (r[0].as_u64().unwrap_or(0) as u32, r[1].as_u64().unwrap_or(0) as u32)).collect();
    return Some(match ranges_accepted(&rs) {
      Some(b) => json!(b),
      None => json!("no-parser"),
    });
  }
  if op != "injection" {
    return None;
  }
  let host = a["host"].as_str().unwrap_or("html");
  let cfg = a["cfg"].as_str().unwrap_or("none");
  let src = a["src"].as_str().unwrap_or("");
  let mask = a["sub_mask"].as_u64().unwrap_or(0);
  Some(guard(|| {
    if hooks::register(cfg_text(cfg)).is_err() {
      return json!("config-error");
    }
    match real(host, src, mask) {
      Some((_, r)) => result_json(&r),
      None => json!("harness_error"),
    }
  }))
}
