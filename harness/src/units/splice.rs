//! C06 / C18 units: the CLI's accept-all filter + splice + write, the rewriter's splice, the
//! fixer's replaced range, and end-to-end `--update-all` runs of the real CLI.
use super::Ctx;
use crate::util::*;
use ast_grep::verif_hooks_interactive as cli_hooks;
use ast_grep_config::verif_hooks as cfg_hooks;
use ast_grep_config::{from_yaml_string, DeserializeEnv, GlobalRules, RuleConfig, RuleCore, SerializableRuleCore};
use ast_grep_core::matcher::{Matcher, MatcherExt};
use ast_grep_core::replacer::Replacer;
use ast_grep_core::source::Edit;
use ast_grep_core::traversal::Visitor;
use ast_grep_core::{Language, Node, Pattern, StrDoc};
use ast_grep_language::SupportLang;
use serde_json::{json, Value};
use std::collections::{BTreeMap, BTreeSet};
use std::path::{Path, PathBuf};
use std::time::{Duration, SystemTime};

type RawDiff = (std::ops::Range<usize>, String);
type SDoc = StrDoc<SupportLang>;

// ---------------------------------------------------------------------------------------
// generators

const PIECES: &[&str] = &[
  "a", "b", "x", "foo", " ", "  ", "\n", "\r\n", "é", "中", "𝒳", "(", ")", ";", ",", "1", "\t",
];

fn gen_text(rng: &mut Rng, max_pieces: usize) -> String {
  let n = rng.below(max_pieces + 1);
  (0..n).map(|_| *rng.pick(PIECES)).collect()
}

fn boundaries(s: &str) -> Vec<usize> {
  let mut b: Vec<usize> = s.char_indices().map(|(i, _)| i).collect();
  b.push(s.len());
  b
}

fn gen_rep(rng: &mut Rng) -> String {
  gen_text(rng, 3)
}

/// a diff list of a named class over `old`
fn gen_diffs(rng: &mut Rng, old: &str) -> (&'static str, Vec<RawDiff>) {
  let bs = boundaries(old);
  let pick_b = |rng: &mut Rng| bs[rng.below(bs.len())];
  let class = rng.below(10);
  let k = rng.below(6);
  match class {
    0 => {
      // ordered, disjoint, on boundaries (adjacent and empty ranges allowed)
      let mut pts: Vec<usize> = (0..2 * k).map(|_| pick_b(rng)).collect();
      pts.sort();
      let ds = pts.chunks(2).map(|c| (c[0]..c[1], gen_rep(rng))).collect();
      ("ordered", ds)
    }
    1 => {
      // random ranges on boundaries, unsorted: overlapping, nested, duplicates
      let ds = (0..k)
        .map(|_| {
          let (a, b) = (pick_b(rng), pick_b(rng));
          (a.min(b)..a.max(b), gen_rep(rng))
        })
        .collect();
      ("unsorted", ds)
    }
    2 => {
      // sorted by start, overlapping / nested
      let mut ds: Vec<RawDiff> = (0..k)
        .map(|_| {
          let (a, b) = (pick_b(rng), pick_b(rng));
          (a.min(b)..a.max(b), gen_rep(rng))
        })
        .collect();
      ds.sort_by_key(|d| d.0.start);
      ("sorted-overlap", ds)
    }
    3 => {
      // adjacent chain
      let mut pts: Vec<usize> = (0..k + 1).map(|_| pick_b(rng)).collect();
      pts.sort();
      let ds = pts.windows(2).map(|w| (w[0]..w[1], gen_rep(rng))).collect();
      ("adjacent", ds)
    }
    4 => {
      // nested: one big range then ranges inside it, and one after
      let mut pts: Vec<usize> = (0..4).map(|_| pick_b(rng)).collect();
      pts.sort();
      let ds = vec![
        (pts[0]..pts[3], gen_rep(rng)),
        (pts[1]..pts[2], gen_rep(rng)),
        (pts[3]..pts[3], gen_rep(rng)),
        (pts[3]..old.len(), gen_rep(rng)),
      ];
      ("nested", ds)
    }
    5 => {
      // arbitrary byte offsets: may fall inside a multi-byte character
      let mut pts: Vec<usize> = (0..2 * k).map(|_| rng.below(old.len() + 1)).collect();
      pts.sort();
      let ds = pts.chunks(2).map(|c| (c[0]..c[1], gen_rep(rng))).collect();
      ("off-boundary", ds)
    }
    6 => {
      // beyond the end of the text
      let mut pts: Vec<usize> = (0..2 * k.max(1)).map(|_| rng.below(old.len() + 4)).collect();
      pts.sort();
      let ds = pts.chunks(2).map(|c| (c[0]..c[1], gen_rep(rng))).collect();
      ("out-of-range", ds)
    }
    7 => {
      // inverted ranges among ordinary ones
      let ds = (0..k)
        .map(|_| (pick_b(rng)..pick_b(rng), gen_rep(rng)))
        .collect();
      ("inverted", ds)
    }
    8 => ("empty", vec![]),
    _ => {
      // pure insertions / deletions
      let mut pts: Vec<usize> = (0..k).map(|_| pick_b(rng)).collect();
      pts.sort();
      let ds = pts
        .iter()
        .map(|&p| {
          if rng.chance(1, 2) {
            (p..p, gen_rep(rng))
          } else {
            let q = bs[(bs.iter().position(|&x| x == p).unwrap() + 1).min(bs.len() - 1)];
            (p..q, String::new())
          }
        })
        .collect();
      ("insert-delete", ds)
    }
  }
}

fn diffs_json(ds: &[RawDiff]) -> Value {
  Value::Array(
    ds.iter()
      .map(|(r, s)| json!([r.start, r.end, s]))
      .collect(),
  )
}

// ---------------------------------------------------------------------------------------
// reference semantics written from the documentation (not from the code)

/// apply one edit at a time, last first, with `String::replace_range` (panics off boundaries)
fn reference_splice(old: &str, edits: &[RawDiff]) -> String {
  let mut s = old.to_string();
  for (r, rep) in edits.iter().rev() {
    s.replace_range(r.clone(), rep);
  }
  s
}

fn ordered_disjoint(edits: &[RawDiff]) -> bool {
  let mut lo = 0usize;
  for (r, _) in edits {
    if !(lo <= r.start && r.start <= r.end) {
      return false;
    }
    lo = r.end;
  }
  true
}

/// every byte outside all ranges is found again, in order, at its shifted position
fn outside_preserved(old: &str, edits: &[RawDiff], new: &str) -> bool {
  let (ob, nb) = (old.as_bytes(), new.as_bytes());
  let mut shift: isize = 0;
  let mut k = 0usize;
  for i in 0..ob.len() {
    while k < edits.len() && edits[k].0.end <= i {
      shift += edits[k].1.len() as isize - (edits[k].0.end - edits[k].0.start) as isize;
      k += 1;
    }
    if k < edits.len() && edits[k].0.start <= i && i < edits[k].0.end {
      continue;
    }
    let j = i as isize + shift;
    if j < 0 || j as usize >= nb.len() || nb[j as usize] != ob[i] {
      return false;
    }
  }
  true
}

/// the documented overlap rule: an edit is dropped iff it starts before the end of an
/// earlier accepted one; properties of a candidate `acc`, not a re-implementation of the loop
fn filter_properties(ds: &[RawDiff], acc: &[RawDiff]) -> Result<(), &'static str> {
  // sub-list
  let mut j = 0usize;
  let mut kept_idx = vec![];
  for (i, d) in ds.iter().enumerate() {
    if j < acc.len() && *d == acc[j] {
      kept_idx.push(i);
      j += 1;
    }
  }
  if j != acc.len() {
    return Err("not-a-sublist");
  }
  // consecutive order
  for w in acc.windows(2) {
    if w[0].0.end > w[1].0.start {
      return Err("not-ordered");
    }
  }
  let wf = ds.iter().all(|d| d.0.start <= d.0.end);
  if wf && !ordered_disjoint(acc) {
    return Err("not-disjoint");
  }
  // nothing is dropped without reason: a dropped diff starts before the end of an accepted
  // diff that was announced earlier
  for (i, d) in ds.iter().enumerate() {
    if kept_idx.contains(&i) {
      continue;
    }
    let reason = kept_idx.iter().any(|&k| k < i && d.0.start < ds[k].0.end);
    if !reason {
      return Err("dropped-without-overlap");
    }
  }
  Ok(())
}

// ---------------------------------------------------------------------------------------
// unit `interactive`: process_diffs_interactive (accept all), apply_rewrite, update_all (hooks)

fn impl_process(ds: &[RawDiff]) -> (Vec<RawDiff>, usize) {
  cli_hooks::process_diffs_accept_all(ds.to_vec())
}

fn impl_apply(old: &str, ds: &[RawDiff]) -> Value {
  let (old, ds) = (old.to_string(), ds.to_vec());
  guard(move || json!(cli_hooks::apply_rewrite(old, ds)))
}

const SENTINEL_SECS: u64 = 978_307_200; // 2001-01-01

fn set_old_mtime(p: &Path) {
  let f = std::fs::File::options().write(true).open(p).expect("open for mtime");
  f.set_modified(SystemTime::UNIX_EPOCH + Duration::from_secs(SENTINEL_SECS))
    .expect("set mtime");
}

fn was_written(p: &Path) -> bool {
  let m = std::fs::metadata(p).and_then(|m| m.modified()).expect("mtime");
  m != SystemTime::UNIX_EPOCH + Duration::from_secs(SENTINEL_SECS)
}

/// files: (id, content); payloads: (id, old_source, diffs). Runs the real printer on a temp dir.
fn impl_update_all(files: &[(usize, String)], payloads: &[(usize, String, Vec<RawDiff>)]) -> Value {
  let dir = tempfile::tempdir().expect("tempdir");
  let path_of = |id: usize| dir.path().join(format!("f{id}.txt"));
  for (id, c) in files {
    std::fs::write(path_of(*id), c).unwrap();
    set_old_mtime(&path_of(*id));
  }
  let ps: Vec<(PathBuf, String, Vec<RawDiff>)> = payloads
    .iter()
    .map(|(id, old, ds)| (path_of(*id), old.clone(), ds.clone()))
    .collect();
  let r = std::panic::catch_unwind(std::panic::AssertUnwindSafe(|| cli_hooks::update_all(ps)));
  let cnt = match r {
    Ok(Ok(n)) => n,
    Ok(Err(_)) => return json!("error"),
    Err(_) => return json!("panic"),
  };
  let mut ids: BTreeSet<usize> = files.iter().map(|f| f.0).collect();
  ids.extend(payloads.iter().map(|p| p.0));
  let mut out = vec![];
  let mut written = vec![];
  for id in ids {
    let p = path_of(id);
    if !p.exists() {
      continue;
    }
    out.push(json!([id, std::fs::read_to_string(&p).unwrap()]));
    let existed = files.iter().any(|f| f.0 == id);
    if !existed || was_written(&p) {
      written.push(id);
    }
  }
  json!({"files": out, "cnt": cnt, "applied": if cnt > 0 { json!(cnt) } else { Value::Null }, "written": written})
}

/// Which `--update-all` printer does the code base have? The pinned code writes one splice per
/// document payload (model `updateAll`); with FIX_C18 it merges the diffs confirmed for a file
/// (model `updateAllFixed`). Decided by behaviour on the minimal two-payload input, so that the
/// correspondence keeps checking everything else against the matching model.
fn update_op_name() -> &'static str {
  let files = vec![(0usize, "abcd".to_string())];
  let payloads = vec![
    (0usize, "abcd".to_string(), vec![(0..1, "9".to_string())]),
    (0usize, "abcd".to_string(), vec![(2..3, "8".to_string())]),
  ];
  let r = impl_update_all(&files, &payloads);
  if r["files"][0][1] == json!("9b8d") {
    "update_all_fixed"
  } else {
    "update_all"
  }
}

fn update_args(files: &[(usize, String)], payloads: &[(usize, String, Vec<RawDiff>)]) -> Value {
  json!({
    "files": files.iter().map(|(i, c)| json!([i, c])).collect::<Vec<_>>(),
    "payloads": payloads.iter().map(|(i, o, ds)| json!([i, o, diffs_json(ds)])).collect::<Vec<_>>(),
  })
}

pub fn interactive(ctx: &Ctx, rng: &mut Rng, o: &mut Out) {
  let n = if ctx.thorough { 80_000 } else { 6_000 };
  let mut oracle_cases = 0usize;
  let mut classes: BTreeMap<&str, usize> = BTreeMap::new();
  for _ in 0..n {
    let old = gen_text(rng, 12);
    let (class, ds) = gen_diffs(rng, &old);
    *classes.entry(class).or_default() += 1;
    let (acc, cnt) = impl_process(&ds);
    o.op(
      "process_diffs",
      json!({"ds": diffs_json(&ds), "class": class}),
      json!({"acc": diffs_json(&acc), "cnt": cnt}),
    );
    // splice of the accepted list, and of the raw list (exercises the panic branches)
    let r_acc = impl_apply(&old, &acc);
    o.op("apply_rewrite", json!({"old": old, "ds": diffs_json(&acc)}), r_acc.clone());
    if acc.len() != ds.len() {
      o.op("apply_rewrite", json!({"old": old, "ds": diffs_json(&ds)}), impl_apply(&old, &ds));
    }
    // oracles on the implementation
    oracle_cases += 1;
    if let Err(why) = filter_properties(&ds, &acc) {
      o.oracle("c06_filter", false, json!({"fp": format!("filter {why} class={class}"), "ds": diffs_json(&ds), "acc": diffs_json(&acc)}));
    }
    if cnt != acc.len() {
      o.oracle("c06_filter", false, json!({"fp": format!("filter count class={class}"), "ds": diffs_json(&ds)}));
    }
    let legal = ds.iter().all(|d| {
      d.0.start <= d.0.end && d.0.end <= old.len() && old.is_char_boundary(d.0.start) && old.is_char_boundary(d.0.end)
    });
    if legal {
      // in range, on char boundaries, well-formed: the property must hold in full
      match r_acc.as_str() {
        Some(new) if new != "panic" => {
          let expect = reference_splice(&old, &acc);
          let ok = new == expect && outside_preserved(&old, &acc, new) && std::str::from_utf8(new.as_bytes()).is_ok();
          if !ok {
            o.oracle("c06_splice", false, json!({"fp": format!("splice differs class={class}"), "old": old, "acc": diffs_json(&acc), "new": new, "expect": expect}));
          }
        }
        _ => {
          o.oracle("c06_splice", false, json!({"fp": format!("splice panics class={class}"), "old": old, "acc": diffs_json(&acc)}));
        }
      }
    }
  }
  o.oracle("c06_filter", true, json!({"cases": oracle_cases, "classes": classes}));
  o.oracle("c06_splice", true, json!({"cases": oracle_cases}));

  // the printer with a file system: several files, several payloads, some sharing a file
  let update_op = update_op_name();
  let m = if ctx.thorough { 10_000 } else { 600 };
  let mut multi = 0usize;
  for _ in 0..m {
    let nfiles = 1 + rng.below(3);
    let files: Vec<(usize, String)> = (0..nfiles).map(|i| (i, gen_text(rng, 10))).collect();
    let npay = rng.below(5);
    let mut payloads = vec![];
    for _ in 0..npay {
      let id = rng.below(nfiles + 1); // nfiles = a path that does not exist yet
      let old = files.get(id).map(|f| f.1.clone()).unwrap_or_else(|| gen_text(rng, 6));
      // mostly legal lists; sometimes anything
      let (_, mut ds) = gen_diffs(rng, &old);
      if rng.chance(3, 4) {
        ds.retain(|d| d.0.start <= d.0.end && d.0.end <= old.len() && old.is_char_boundary(d.0.start) && old.is_char_boundary(d.0.end));
      }
      payloads.push((id, old, ds));
    }
    let ids: Vec<usize> = payloads.iter().filter(|p| !p.2.is_empty()).map(|p| p.0).collect();
    if ids.iter().collect::<BTreeSet<_>>().len() < ids.len() {
      multi += 1;
    }
    let r = impl_update_all(&files, &payloads);
    o.op(update_op, update_args(&files, &payloads), r);
  }
  o.oracle("update_all_multi_payload_inputs", true, json!({"cases": multi}));
}

// ---------------------------------------------------------------------------------------
// unit `rewrite_splice`: the rewriter's make_edit (hook) and Rewrite::compute end to end

fn redits_json(es: &[(usize, usize, Vec<u8>)]) -> Value {
  Value::Array(es.iter().map(|(p, d, t)| json!([p, d, t])).collect())
}

fn impl_rw_make_edit(old: &[u8], edits: &[(usize, usize, Vec<u8>)], offset: usize) -> Value {
  let edits: Vec<Edit<String>> = edits
    .iter()
    .map(|(p, d, t)| Edit { position: *p, deleted_length: *d, inserted_text: t.clone() })
    .collect();
  let old = old.to_vec();
  guard(move || json!({"ok": cfg_hooks::rewrite::make_edit::<SDoc>(&old, edits, offset)}))
}

const REWRITERS: &[(&str, &str, &str)] = &[
  ("num", "{kind: number}", "N"),
  ("ident", "{kind: identifier, pattern: $I}", "'<$I>'"),
  ("call", "{pattern: g($X)}", "'G[$X]'"),
  ("str", "{kind: string}", "'STR'"),
  ("numc", "{kind: number}", "{template: M, expandEnd: {regex: ','}}"),
  ("arr", "{kind: array}", "'[]'"),
  ("wrapf", "{pattern: f($X)}", "'wrap($X)'"),
  ("cnum", "{kind: number}", "{template: K, expandStart: {regex: ','}}"),
  // two rewriters over the same shape that name their variables the other way round, the first with
  // a constraint that rejects most of its pattern's matches: what it bound before it was rejected
  // must not reach the second one (C04: a rejected alternative leaves no trace)
  ("eqnull", "{pattern: $A == $B}", "'isNull($A)'"),
  ("flip", "{pattern: $B == $A}", "'flipped($B)'"),
];

/// `constraints` of the rewriters that have some
const REWRITER_CONSTRAINTS: &[(&str, &str)] = &[("eqnull", "{B: {regex: '^null$'}}")];

/// the documented meaning of each rewriter's fix, for the reference of oracle `c06_rewriter`:
/// (template, meta variable substituted verbatim, swallows a directly following comma,
/// swallows a directly preceding comma)
fn rewriter_doc(id: &str) -> (&'static str, Option<&'static str>, bool, bool) {
  match id {
    "num" => ("N", None, false, false),
    "ident" => ("<$I>", Some("I"), false, false),
    "call" => ("G[$X]", Some("X"), false, false),
    "str" => ("STR", None, false, false),
    "numc" => ("M", None, true, false),
    "arr" => ("[]", None, false, false),
    "wrapf" => ("wrap($X)", Some("X"), false, false),
    "cnum" => ("K", None, false, true),
    "eqnull" => ("isNull($A)", Some("A"), false, false),
    "flip" => ("flipped($B)", Some("B"), false, false),
    _ => unreachable!(),
  }
}

/// what the `rewrite` transformation is applied to: all arguments (`$$$ARGS`), or a single
/// argument that has a sibling comma outside the captured text -- after it (`First`) or before
/// it (`Second`) -- so that a rewriter's `expandEnd` / `expandStart` leaves the captured text
#[derive(Clone, Copy, PartialEq)]
enum Capture {
  All,
  First,
  Second,
}

fn rewriter_config(id: &str) -> RuleConfig<SupportLang> {
  let (_, rule, fix) = REWRITERS.iter().find(|r| r.0 == id).unwrap();
  let mut yaml = format!("id: {id}\nlanguage: JavaScript\nrule: {rule}\nfix: {fix}\n");
  if let Some((_, c)) = REWRITER_CONSTRAINTS.iter().find(|c| c.0 == id) {
    yaml.push_str(&format!("constraints: {c}\n"));
  }
  from_yaml_string::<SupportLang>(&yaml, &GlobalRules::default()).expect("rewriter loads").remove(0)
}

fn gen_js_args(rng: &mut Rng) -> String {
  let atoms = [
    "1", "22", "a", "bé", "中", "g(2)", "g(b)", "g(g(3))", "'x'", "\"é\"", "[1, c]", "h(4, d)", "-5", "a + 1", "g(1) + g(2)",
    "f(1)", "f(f(2))", "f(g(f(3)))", "g(f(a))", "f(f(f(4)))", "x == 1", "y == null", "g(a == b)",
  ];
  let n = rng.below(6);
  let seps = [", ", ",", " ,\n  ", ",\n        ", "\n    , "];
  let mut s = String::new();
  for i in 0..n {
    if i > 0 {
      s.push_str(*rng.pick(&seps));
    }
    s.push_str(*rng.pick(&atoms));
  }
  s
}

pub fn rewrite_splice(ctx: &Ctx, rng: &mut Rng, o: &mut Out) {
  // 1. the private make_edit through the hook
  let n = if ctx.thorough { 40_000 } else { 3_000 };
  let mut outside_cases = 0usize;
  for _ in 0..n {
    let old = gen_text(rng, 10);
    let offset = rng.below(20);
    let (class, ds) = gen_diffs(rng, &old);
    let mut edits: Vec<(usize, usize, Vec<u8>)> = ds
      .iter()
      .map(|(r, s)| (offset + r.start, r.end.saturating_sub(r.start), s.as_bytes().to_vec()))
      .collect();
    // edits that leave the captured text (a fix with expandStart / expandEnd, a rewriter made of a
    // bare relation).  The released code panicked on each of them; the repaired code clamps the
    // edit to the captured text.
    if rng.chance(1, 12) && !edits.is_empty() && offset > 0 {
      // an edit before the start of the capture: `position - offset` would underflow
      // (its deleted length is kept: it may end before the capture or reach into it)
      let i = rng.below(edits.len());
      edits[i].0 = rng.below(offset);
    }
    if rng.chance(1, 12) && !edits.is_empty() {
      // an edit whose deleted length reaches beyond the end of the capture
      let i = rng.below(edits.len());
      let rel = edits[i].0.saturating_sub(offset);
      edits[i].1 = old.len().saturating_sub(rel) + 1 + rng.below(4);
    }
    if rng.chance(1, 12) && !edits.is_empty() {
      // an edit positioned at or beyond the end of the capture (deleted length kept)
      let i = rng.below(edits.len());
      edits[i].0 = offset + old.len() + rng.below(4);
    }
    let outside = edits.iter().any(|(p, d, _)| *p < offset || p + d > offset + old.len());
    let r = impl_rw_make_edit(old.as_bytes(), &edits, offset);
    // the point of the repair, independent of the model: no input makes the splice panic
    if outside {
      outside_cases += 1;
    }
    if r == json!("panic") {
      o.oracle(
        "c06_rw_make_edit_total",
        false,
        json!({"fp": format!("make_edit panics class={class} outside={outside}"),
               "old": old.as_bytes(), "edits": redits_json(&edits), "offset": offset}),
      );
    }
    o.op(
      "rw_make_edit",
      json!({"old": old.as_bytes(), "edits": redits_json(&edits), "offset": offset, "class": class}),
      r,
    );
  }
  o.oracle("c06_rw_make_edit_total", true, json!({"cases": outside_cases}));
  // 2. Rewrite::compute end to end, with and without joinBy
  let m = if ctx.thorough { 6_000 } else { 500 };
  let globals = GlobalRules::default();
  let mut cases = 0usize;
  let mut leaving = 0usize;
  // small fixed cases first (nested / recursive rewriter matches with gap text between the items;
  // a single captured argument whose rewriter's expansion leaves the captured text: the edit
  // reaches beyond its end / starts before it), then generated ones
  use Capture::*;
  let fixed: Vec<(Vec<&str>, Option<&str>, &str, Capture)> = vec![
    (vec!["wrapf"], Some(" + "), "f(f(1),\n    f(f(2)))", All),
    (vec!["wrapf"], None, "f(f(1),\n    f(f(2)))", All),
    (vec!["call"], Some(","), "f(a,      g(g(3)))", All),
    (vec!["call", "num"], Some(""), "f(1 ,\n  2 ,\n  g(g(g(3))), 4)", All),
    (vec!["numc", "arr"], Some("|"), "f([1, 2], 3, 4)", All),
    (vec!["numc"], None, "f(1, 2)", First),
    (vec!["numc"], Some("+"), "f(1, 2)", First),
    (vec!["numc", "ident"], None, "f(22 ,\n  a, 3)", First),
    (vec!["numc"], None, "f(g(1, 2), 3)", First),
    (vec!["call", "numc"], None, "f(g(4), 5)", First),
    (vec!["cnum"], None, "f(a, 2)", Second),
    (vec!["cnum"], Some("+"), "f(a, 2)", Second),
    (vec!["cnum"], None, "f(é ,\n  22)", Second),
    (vec!["cnum"], None, "f(a, g(1, 2))", Second),
    (vec!["cnum", "numc"], Some(" | "), "f(1, h(4, 5))", Second),
    (vec!["cnum"], None, "f(a, 2, 3)", All),
    (vec!["eqnull", "flip"], None, "f(x == 1, y == null)", All),
    (vec!["eqnull", "flip"], Some(" & "), "f(x == 1, y == null, g(z == 2))", All),
    (vec!["flip", "eqnull"], None, "f(x == 1, y == null)", All),
  ];
  for k in 0..m + fixed.len() {
    let (ids, joiner, fixed_src, capture): (Vec<&str>, Option<&str>, Option<&str>, Capture) = if k < fixed.len() {
      (fixed[k].0.clone(), fixed[k].1, Some(fixed[k].2), fixed[k].3)
    } else {
      // choose an ordered subset of rewriters
      let mut ids: Vec<&str> = REWRITERS.iter().map(|r| r.0).filter(|_| rng.chance(1, 2)).collect();
      if ids.is_empty() {
        ids.push("num");
      }
      if rng.chance(1, 2) {
        ids.reverse();
      }
      let joiner = if rng.chance(1, 2) { Some(*rng.pick(&["+", "", " | ", "é", " + "])) } else { None };
      (ids, joiner, None, All)
    };
    let (pattern, source) = match capture {
      All => ("f($$$ARGS)", "$$$ARGS"),
      First => ("f($ARGS, $$$R)", "$ARGS"),
      Second => ("f($A, $ARGS)", "$ARGS"),
    };
    let mut yaml = format!("id: t\nlanguage: JavaScript\nrule: {{pattern: '{pattern}'}}\nrewriters:\n");
    for id in &ids {
      let (_, rule, fix) = REWRITERS.iter().find(|r| r.0 == *id).unwrap();
      yaml.push_str(&format!("- id: {id}\n  rule: {rule}\n  fix: {fix}\n"));
      if let Some((_, c)) = REWRITER_CONSTRAINTS.iter().find(|c| c.0 == *id) {
        yaml.push_str(&format!("  constraints: {c}\n"));
      }
    }
    yaml.push_str(&format!("transform:\n  NEW:\n    rewrite:\n      rewriters: [{}]\n      source: {source}\n", ids.join(", ")));
    if let Some(j) = joiner {
      yaml.push_str(&format!("      joinBy: '{j}'\n"));
    }
    let rule = from_yaml_string::<SupportLang>(&yaml, &globals).expect("rewrite rule loads").remove(0);
    let rws: Vec<RuleConfig<SupportLang>> = ids.iter().map(|id| rewriter_config(id)).collect();
    let src = match fixed_src {
      Some(t) => t.to_string(),
      None => format!("f({})", gen_js_args(rng)),
    };
    let grep = SupportLang::JavaScript.ast_grep(&src);
    let root = grep.root();
    let Some(nm) = root.find(&rule.matcher) else {
      assert!(fixed_src.is_none(), "fixed case {k} does not match");
      continue;
    };
    let env = nm.get_env();
    let nodes = match capture {
      All => env.get_multiple_matches("ARGS"),
      _ => env.get_match("ARGS").cloned().into_iter().collect(),
    };
    let real = guard(|| match env.get_transformed("NEW") {
      Some(b) => json!(String::from_utf8_lossy(b).to_string()),
      None => Value::Null,
    });
    if nodes.is_empty() {
      // `compute` returns None: nothing to compare with the splice model
      continue;
    }
    let start = nodes[0].range().start;
    let end = nodes[nodes.len() - 1].range().end;
    let bytes = src.as_bytes()[start..end].to_vec();
    // the edits of find_and_make_edits, recomputed through the public API
    let mut edits: Vec<(usize, usize, Vec<u8>)> = vec![];
    for n in &nodes {
      for child in n.dfs() {
        for rw in &rws {
          if let Some(m) = rw.matcher.match_node(child.clone()) {
            let e = m.make_edit(&rw.matcher, rw.matcher.fixer.as_ref().expect("fix"));
            edits.push((e.position, e.deleted_length, e.inserted_text));
            break;
          }
        }
      }
    }
    cases += 1;
    o.op(
      "rw_compute",
      json!({"old": bytes, "edits": redits_json(&edits), "start": start, "joiner": joiner, "src": src, "rewriters": ids}),
      real.clone(),
    );
    // oracle (C06, rewriter clause), reference written from the documentation and computed from
    // the rewriter *matches* (not from `make_edit`): walking the captured nodes in pre-order, the
    // first listed rewriter that matches a node proposes to replace that node (plus a directly
    // following comma for `expandEnd: ','`) by its template with the meta variable's text
    // substituted; a proposal overlapping an already kept one is dropped (outermost first);
    // without joinBy the output is the captured text with exactly the kept ranges substituted,
    // with joinBy it is the kept replacements joined by the separator.
    {
      let raw = env.get_transformed("NEW").cloned().unwrap_or_default();
      let captured = std::str::from_utf8(&bytes).expect("capture is utf8");
      let mut proposals: Vec<RawDiff> = vec![];
      let mut leaves = false;
      for n in &nodes {
        for child in n.dfs() {
          for (id, rw) in ids.iter().zip(rws.iter()) {
            let Some(m) = rw.matcher.match_node(child.clone()) else { continue };
            let (tpl, var, comma, comma_before) = rewriter_doc(id);
            let mut r = child.range();
            if comma {
              if let Some(nx) = child.next() {
                if nx.text().contains(',') {
                  r.end = nx.range().end;
                }
              }
            }
            if comma_before {
              if let Some(pv) = child.prev() {
                if pv.text().contains(',') {
                  r.start = pv.range().start;
                }
              }
            }
            let rep = match var {
              Some(v) => {
                let t = m.get_env().get_match(v).map(|n| n.text().to_string()).unwrap_or_default();
                tpl.replace(&format!("${v}"), &t)
              }
              None => tpl.to_string(),
            };
            // a proposal may leave the captured text (the comma before / after a single
            // captured argument): only the part inside the captured text can be replaced
            if r.start < start || r.end > end {
              leaves = true;
            }
            let a = r.start.saturating_sub(start).min(captured.len());
            let b = r.end.saturating_sub(start).min(captured.len()).max(a);
            proposals.push((a..b, rep));
            break;
          }
        }
      }
      let n_proposals = proposals.len();
      let mut kept: Vec<RawDiff> = vec![];
      for d in proposals {
        let disjoint = kept.iter().all(|k| k.0.end <= d.0.start || d.0.end <= k.0.start);
        if disjoint {
          kept.push(d);
        }
      }
      kept.sort_by_key(|d| (d.0.start, d.0.end));
      if leaves {
        leaving += 1;
      }
      // a kept range that leaves the capture was cut to the captured text above: the repaired code
      // replaces the part inside it and keeps every other byte of the capture (the released code
      // panicked; the clamping on arbitrary edit lists is covered by op rw_make_edit)
      let expect: String = match joiner {
        Some(j) => kept.iter().map(|d| d.1.as_str()).collect::<Vec<_>>().join(j),
        None => reference_splice(captured, &kept),
      };
      let got = std::str::from_utf8(&raw).ok();
      let ok = match got {
        None => false,
        Some(g) => expect == g && (joiner.is_some() || outside_preserved(captured, &kept, g)),
      };
      if !ok {
        o.oracle(
          "c06_rewriter",
          false,
          json!({"fp": format!("rewriter output joinBy={} overlapping_matches={}", joiner.is_some(), n_proposals != kept.len()),
                 "rewriters": ids,
                 "lang": "JavaScript", "source": src, "rule_yaml": yaml, "captured": captured,
                 "kept_edits": diffs_json(&kept), "expected": expect, "actual": got}),
        );
      }
    }
  }
  o.oracle("c06_rewriter", true, json!({"cases": cases}));
  // cases in which a rewriter's edit leaves the captured text (clamped by the repaired code)
  o.oracle("c06_rewriter_clamped", true, json!({"cases": leaving}));
}

// ---------------------------------------------------------------------------------------
// unit `edit_range`: where an edit's range comes from (default / match length / expansions)

fn sib_json<'a>(
  sibs: impl Iterator<Item = Node<'a, SDoc>>,
  exp: &RuleCore<SupportLang>,
  stop: Option<&RuleCore<SupportLang>>,
) -> Vec<Value> {
  sibs
    .map(|s| {
      let matched = exp.match_node(s.clone()).is_some();
      let stops = stop.map(|r| r.match_node(s.clone()).is_some()).unwrap_or(false);
      json!([s.range().start, s.range().end, matched, stops])
    })
    .collect()
}

/// a bare rule (no `kind` requirement), used to evaluate an expansion / stopBy rule on one sibling
fn one_rule(_lang: &str, rule: &str) -> RuleCore<SupportLang> {
  let core: SerializableRuleCore = ast_grep_config::from_str(&format!("rule: {rule}\n")).expect("aux rule parses");
  core.get_matcher(DeserializeEnv::new(SupportLang::JavaScript)).expect("aux rule loads")
}

/// containment facts of the property, checked on the implementation's range
fn range_oracle(src: &str, node: &Node<SDoc>, r: &std::ops::Range<usize>, expanded: bool) -> Result<(), &'static str> {
  let nr = node.range();
  if !(r.start <= r.end && r.end <= src.len()) {
    return Err("range outside file");
  }
  if !(src.is_char_boundary(r.start) && src.is_char_boundary(r.end)) {
    return Err("range off char boundary");
  }
  if !expanded {
    if r.start != nr.start {
      return Err("range does not start at the match");
    }
    if r.end > nr.end {
      return Err("range exceeds the match");
    }
  } else {
    if !(r.start <= nr.start && nr.end <= r.end) {
      return Err("expansion does not contain the match");
    }
    if let Some(p) = node.parent() {
      let pr = p.range();
      if !(pr.start <= r.start && r.end <= pr.end) {
        return Err("expansion leaves the parent");
      }
    }
    let starts: Vec<usize> = node.prev_all().map(|s| s.range().start).collect();
    let ends: Vec<usize> = node.next_all().map(|s| s.range().end).collect();
    if r.start != nr.start && !starts.contains(&r.start) {
      return Err("expanded start is not a sibling start");
    }
    if r.end != nr.end && !ends.contains(&r.end) {
      return Err("expanded end is not a sibling end");
    }
  }
  Ok(())
}

const JS_SOURCES: &[&str] = &[
  "foo(1);\nfoo(2, 3)\nbar(foo(4));",
  "let a = [1, 2, 3,];\nlet b = {x: 1, y: 2,z:3};",
  "f(a, b,c , d);\nf(é, '中', 𝒳);",
  "const é = [ 10 ,20,\r\n 30 ];\r\nfoo(é);",
  "foo(foo(foo(1)));\nfoo(;\n[1,,2]",
  "x = {a: 1, /* c */ b: 2, ...r, c};",
  "",
  "foo(1)",
];

pub fn edit_range(ctx: &Ctx, rng: &mut Rng, o: &mut Out) {
  let mut cases = 0usize;
  // 1. `run`-style: pattern + string fix (default range with match length)
  let pats = ["foo($A)", "foo($$$A)", "$A", "let $A = $B", "[$$$A]", "f($A, $$$B)", "$X;", "foo($A);"];
  for src in JS_SOURCES {
    for lang in [SupportLang::JavaScript, SupportLang::TypeScript] {
      let grep = lang.ast_grep(*src);
      for pat in pats {
        let Ok(pattern) = Pattern::try_new(pat, lang) else { continue };
        let fixer = ast_grep_config::Fixer::from_str("new($A)", &lang).expect("fixer");
        let root = grep.root();
        let mut edits: Vec<RawDiff> = vec![];
        for nm in Visitor::new(&pattern).reentrant(false).visit(root.clone()) {
          let node = nm.get_node().clone();
          let mlen = pattern.get_match_len(node.clone());
          let real = Replacer::<SDoc>::get_replaced_range(&fixer, &nm, &pattern);
          cases += 1;
          o.op(
            "fixer_range",
            json!({"node": [node.range().start, node.range().end], "mlen": mlen, "es": null, "ee": null, "prevs": [], "nexts": [], "src": src, "pat": pat}),
            json!([real.start, real.end]),
          );
          if let Err(why) = range_oracle(src, &node, &real, false) {
            o.oracle("c06_range", false, json!({"fp": format!("default range: {why}"), "src": src, "pat": pat}));
          }
          // replace_by always takes the node's range
          let e = nm.replace_by("X");
          if e.position != node.range().start || e.position + e.deleted_length != node.range().end {
            o.oracle("c06_range", false, json!({"fp": "replace_by range is not the node", "src": src, "pat": pat}));
          }
          let e2 = nm.make_edit(&pattern, &fixer);
          edits.push((e2.position..e2.position + e2.deleted_length, String::from_utf8_lossy(&e2.inserted_text).to_string()));
        }
        // Node::replace_all: same edits, ordered and disjoint (non-reentrant visit)
        let all = root.replace_all(&pattern, &fixer);
        let all: Vec<RawDiff> = all
          .into_iter()
          .map(|e| (e.position..e.position + e.deleted_length, String::from_utf8_lossy(&e.inserted_text).to_string()))
          .collect();
        if all != edits {
          o.oracle("c06_range", false, json!({"fp": "replace_all differs from per-match make_edit", "src": src, "pat": pat}));
        }
        if !ordered_disjoint(&all) {
          o.oracle("c06_range", false, json!({"fp": "replace_all edits not ordered/disjoint", "src": src, "pat": pat}));
        }
        // and they go through the CLI filter unchanged, splice = reference
        let (acc, _) = impl_process(&all);
        if acc != all {
          o.oracle("c06_range", false, json!({"fp": "filter drops a replace_all edit", "src": src, "pat": pat}));
        }
        if let Some(new) = impl_apply(src, &acc).as_str() {
          if ordered_disjoint(&acc) && (new != reference_splice(src, &acc) || !outside_preserved(src, &acc, new)) {
            o.oracle("c06_range", false, json!({"fp": "replace_all splice differs", "src": src, "pat": pat}));
          }
        }
      }
    }
  }
  // 2. rules with expandStart / expandEnd
  let targets = ["{kind: number}", "{kind: pair}", "{kind: identifier}", "{kind: string}", "{kind: shorthand_property_identifier}"];
  let exps = ["{regex: '^,$'}", "{kind: number}", "{kind: comment}", "{regex: '^[\\[\\]{}()]$'}", "{kind: pair}"];
  let stops: [(&str, Option<&str>); 4] = [("neighbor", None), ("end", None), ("rule", Some("{kind: comment}")), ("rule", Some("{regex: '^,$'}"))];
  let n = if ctx.thorough { 20_000 } else { 1_500 };
  for _ in 0..n {
    let target = *rng.pick(&targets);
    let mk = |rng: &mut Rng| -> Option<(usize, usize)> {
      if rng.chance(2, 3) {
        Some((rng.below(exps.len()), rng.below(stops.len())))
      } else {
        None
      }
    };
    let (es, ee) = (mk(rng), mk(rng));
    let part = |name: &str, c: Option<(usize, usize)>| -> String {
      match c {
        None => String::new(),
        Some((e, s)) => {
          let body = exps[e].trim_start_matches('{').trim_end_matches('}');
          let stop = match stops[s] {
            ("rule", Some(r)) => r.to_string(),
            (k, _) => k.to_string(),
          };
          format!("  {name}: {{{body}, stopBy: {stop}}}\n")
        }
      }
    };
    let yaml = format!(
      "id: t\nlanguage: JavaScript\nrule: {target}\nfix:\n  template: 'X'\n{}{}",
      part("expandStart", es),
      part("expandEnd", ee)
    );
    let rule = match from_yaml_string::<SupportLang>(&yaml, &GlobalRules::default()) {
      Ok(mut r) => r.remove(0),
      Err(_) => continue,
    };
    let fixer = rule.matcher.fixer.as_ref().expect("fixer");
    let aux = |c: Option<(usize, usize)>| {
      c.map(|(e, s)| (one_rule("JavaScript", exps[e]), stops[s].1.map(|r| one_rule("JavaScript", r)), stops[s].0))
    };
    let (aes, aee) = (aux(es), aux(ee));
    let src = *rng.pick(JS_SOURCES);
    let grep = SupportLang::JavaScript.ast_grep(src);
    let root = grep.root();
    for nm in root.find_all(&rule.matcher) {
      let node = nm.get_node().clone();
      let real = fixer.get_replaced_range(&nm, &rule.matcher);
      let prevs = aes.as_ref().map(|(e, s, _)| sib_json(node.prev_all(), e, s.as_ref())).unwrap_or_default();
      let nexts = aee.as_ref().map(|(e, s, _)| sib_json(node.next_all(), e, s.as_ref())).unwrap_or_default();
      cases += 1;
      o.op(
        "fixer_range",
        json!({"node": [node.range().start, node.range().end], "mlen": null,
               "es": aes.as_ref().map(|x| x.2), "ee": aee.as_ref().map(|x| x.2),
               "prevs": prevs, "nexts": nexts, "src": src, "yaml": yaml}),
        json!([real.start, real.end]),
      );
      let expanded = es.is_some() || ee.is_some();
      if let Err(why) = range_oracle(src, &node, &real, expanded) {
        o.oracle("c06_range", false, json!({"fp": format!("fixer range: {why}"), "src": src, "yaml": yaml}));
      }
    }
  }
  o.oracle("c06_range", true, json!({"cases": cases}));
  // 3. the interface facts of Rust's UTF-8 encoder used by `splice_utf8` / `applyRewrite_utf8`
  let mut chars = 0usize;
  let mut bad = 0usize;
  let mut check = |c: char| {
    let mut buf = [0u8; 4];
    let b = c.encode_utf8(&mut buf).as_bytes();
    let cont = |x: u8| (0x80..0xC0).contains(&x);
    chars += 1;
    if b.is_empty() || cont(b[0]) || !b[1..].iter().all(|x| cont(*x)) {
      bad += 1;
    }
  };
  for cp in (0..0x11_0000u32).step_by(if ctx.thorough { 1 } else { 7 }) {
    if let Some(c) = char::from_u32(cp) {
      check(c);
    }
  }
  for c in ['\0', '\u{7f}', '\u{80}', '\u{7ff}', '\u{800}', '\u{ffff}', '\u{10000}', '\u{10ffff}'] {
    check(c);
  }
  if bad > 0 {
    o.oracle("utf8_interface", false, json!({"fp": "encoder not lead+continuation", "bad": bad}));
  }
  o.oracle("utf8_interface", true, json!({"cases": chars}));
}

// ---------------------------------------------------------------------------------------
// unit `update_cli`: the real CLI, `--json=stream` then `-U` on a copy

struct Project {
  files: Vec<(String, String)>, // relative path, content (sorted by path)
  config: Vec<(String, String)>, // sgconfig.yml + rule files (scan mode)
  cmd: Vec<String>,             // arguments without --json / -U
  class: String,
}

fn sg_bin() -> PathBuf {
  let exe = std::env::current_exe().expect("current exe");
  exe.parent().expect("dir").join("agv-sg")
}

/// run the CLI in `cwd` with a wall-clock timeout; (status | "hang", stdout)
fn run_cli(cwd: &Path, args: &[String], secs: u64) -> (String, String) {
  use std::io::Read;
  use std::process::{Command, Stdio};
  let mut child = Command::new(sg_bin())
    .args(args)
    .current_dir(cwd)
    .stdin(Stdio::null())
    .stdout(Stdio::piped())
    .stderr(Stdio::null())
    .env("NO_COLOR", "1")
    .spawn()
    .expect("spawn agv-sg");
  let mut out = child.stdout.take().expect("stdout");
  let reader = std::thread::spawn(move || {
    let mut s = String::new();
    let _ = out.read_to_string(&mut s);
    s
  });
  let t0 = std::time::Instant::now();
  loop {
    match child.try_wait().expect("wait") {
      Some(st) => {
        let s = reader.join().unwrap_or_default();
        return (st.code().map(|c| c.to_string()).unwrap_or_else(|| "signal".into()), s);
      }
      None => {
        if t0.elapsed() > Duration::from_secs(secs) {
          let _ = child.kill();
          let _ = child.wait();
          return ("hang".into(), String::new());
        }
        std::thread::sleep(Duration::from_millis(3));
      }
    }
  }
}

fn write_project(dir: &Path, p: &Project) {
  for (rel, c) in p.files.iter().chain(p.config.iter()) {
    let path = dir.join(rel);
    if let Some(d) = path.parent() {
      std::fs::create_dir_all(d).unwrap();
    }
    std::fs::write(&path, c).unwrap();
    set_old_mtime(&path);
  }
}

const JS_SNIPPETS: &[&str] = &[
  "foo(1);\n", "foo(2, 3);\n", "let x = foo(foo(4));\n", "bar(5);\n", "// é 中 𝒳\n", "const s = 'é';\n",
  "foo('中');\r\n", "let arr = [1, 2, 3];\n", "console.log(x);\n", "debugger;\n", "foo(bar(6), 7);\n", "var v = 8;\n", "\n",
  // suppressions that are used only by a match NESTED inside a node another rule fixes
  "// ast-grep-ignore: a-num\nfoo(7);\n", "foo(8); // ast-grep-ignore: a-num\n", "// ast-grep-ignore\nfoo(bar(6));\n",
  "// ast-grep-ignore: p-callee\nfoo(foo(9));\n", "// ast-grep-ignore: a-num\nbar(5);\n",
  // nodes that begin with a token a pattern may skip, with multi-byte text near their end
  "async function af() { work('日本語') }\n", "class K { static sm() { return '語' } }\n", "function pf() { g() }\n",
  // several comments before a `debugger` statement (expandStart … stopBy: end picks the nearest)
  "// first é\nbar(5);\n// second\ndebugger;\n", "/* a */ foo(1); /* b */ debugger;\n",
  // two expanding fixes that share a separator, with a third fix nested inside the one that loses
  "let brr = [1, g(2), 3];\n", "let crr = [g(4), 5];\n",
];

fn gen_js(rng: &mut Rng) -> String {
  let n = rng.below(7);
  (0..n).map(|_| *rng.pick(JS_SNIPPETS)).collect()
}

fn gen_html(rng: &mut Rng) -> String {
  let mut s = String::new();
  let parts = 1 + rng.below(4);
  for _ in 0..parts {
    match rng.below(4) {
      0 => s.push_str(&format!("<div foo=\"{}\">é text</div>\n", rng.below(10))),
      1 => {
        if rng.chance(1, 2) {
          // no space between the tags and the embedded code: edits of the two documents touch
          let tight = ["foo()", "foo(1);bar(5)", "foo(foo(4))", "var v = 8", "debugger", "1"];
          s.push_str(&format!("<script>{}</script>\n", rng.pick(&tight)));
        } else {
          s.push_str(&format!("<script>{}</script>\n", gen_js(rng).replace('\n', " ")));
        }
      }
      2 => s.push_str(*rng.pick(&["<style>a { color: red; }</style>\n", "<style>a{color:red}</style>\n"])),
      _ => s.push_str("<p foo>中</p>\n"),
    }
  }
  s
}

fn gen_files(rng: &mut Rng, with_html: bool) -> Vec<(String, String)> {
  let mut files = vec![];
  let n = 1 + rng.below(4);
  for i in 0..n {
    files.push((format!("src/m{i}.js"), gen_js(rng)));
  }
  if rng.chance(1, 2) {
    files.push(("src/t.ts".into(), gen_js(rng)));
  }
  // a file that starts with a UTF-8 byte order mark (three bytes the parser skips and that every
  // offset still counts), now and then with CRLF line ends
  if rng.chance(1, 3) {
    let body = if rng.chance(1, 2) { gen_js(rng).replace('\n', "\r\n") } else { gen_js(rng) };
    files.push(("src/bom.js".into(), format!("\u{feff}{body}")));
  }
  if with_html {
    let h = 1 + rng.below(2);
    for i in 0..h {
      files.push((format!("web/p{i}.html"), gen_html(rng)));
    }
  }
  files.push(("notes.txt".into(), "foo(1); untouched é\n".into()));
  files.push(("src/other.py".into(), "foo(1)\n".into()));
  files.sort();
  files
}

const SCAN_RULES: &[(&str, &str)] = &[
  ("a-num", "language: js\nrule: {kind: number}\nfix: '42'\n"),
  ("b-foo", "language: js\nrule: {pattern: foo($$$A)}\nfix: 'baz($$$A)'\n"),
  ("c-foo-inner", "language: js\nrule: {pattern: foo($A)}\nfix: '$A'\n"),
  ("d-dbg", "language: js\nrule: {pattern: debugger}\nfix: ''\n"),
  ("e-arr", "language: js\nrule: {kind: number, inside: {kind: array}}\nfix:\n  template: ''\n  expandEnd: {regex: ','}\n"),
  ("f-attr", "language: html\nrule: {kind: attribute_name, regex: '^foo$'}\nfix: bar\n"),
  ("g-text", "language: html\nrule: {kind: text}\nfix: TXT\n"),
  ("h-css", "language: css\nrule: {kind: plain_value}\nfix: blue\n"),
  ("i-nofix", "language: js\nrule: {pattern: console.log($A)}\n"),
  ("j-ts", "language: ts\nrule: {kind: number}\nfix: '0'\n"),
  ("k-script", "language: html\nrule: {kind: script_element}\nfix: '<script></script>'\n"),
  ("l-var", "language: js\nrule: {pattern: var $A = $B}\nfix: 'let $A = $B'\n"),
  // edits that TOUCH other edits without overlapping them: tags around an embedded document,
  // callee + argument list of one call
  ("m-stag", "language: html\nrule: {kind: start_tag}\nfix: '<x>'\n"),
  ("n-etag", "language: html\nrule: {kind: end_tag}\nfix: '</x>'\n"),
  ("o-args", "language: js\nrule: {kind: arguments}\nfix: '()'\n"),
  ("p-callee", "language: js\nrule: {kind: identifier, regex: '^(foo|bar)$'}\nfix: qux\n"),
  // expandStart with `stopBy: end`: the NEAREST preceding sibling that is a comment
  ("r-dbg", "language: js\nrule: {kind: debugger_statement}\nfix:\n  template: ''\n  expandStart: {kind: comment, stopBy: end}\n"),
  // expands to the LEFT over the separator that e-arr's expandEnd swallows too
  ("q-arr", "language: js\nrule: {kind: call_expression, inside: {kind: array}}\nfix:\n  template: 'C'\n  expandStart: {regex: ','}\n"),
];

fn gen_project(rng: &mut Rng, k: usize) -> Project {
  match k % 4 {
    0 => {
      // run -p/-r on js/ts files
      let pats = [("foo($A)", "bar($A)"), ("foo($$$A)", "baz($$$A)"), ("$A", "($A)"), ("foo($A)", "$A"), ("debugger", ""), ("let $A = $B", "const $A = $B"),
        // rewrites without any variable on nodes that end in a token the pattern leaves out (`;`)
        ("let $A = $B", "let z = 0"), ("var $A = $B", "done()"), ("debugger", "/* removed */"),
        // patterns that match a node whose FIRST token they skip (`async`, `static`): the replaced
        // range still starts at the node and must end at the end of a node below it
        ("function $F() { $$$B }", "function $F() { return 1 }"), ("class $C { $M() { $$$B } }", "class $C {}")];
      let (p, r) = *rng.pick(&pats);
      let mut cmd = vec!["run".to_string(), "-p".into(), p.into(), "-r".into(), r.into()];
      if rng.chance(1, 2) {
        cmd.extend(["-l".to_string(), "js".into()]);
      }
      let with_html = rng.chance(1, 3);
      let mut files = gen_files(rng, with_html);
      // make sure the skipped-first-token patterns meet a node that starts with such a token
      let extra = if p.starts_with("function") {
        "async function af() { work('日本語') }\nfunction pf() { g() }\nasync function ag() { h(1) }\n"
      } else if p.starts_with("class") {
        "class K { static sm() { return '語' } }\nclass L { m() { return 2 } }\n"
      } else {
        ""
      };
      if !extra.is_empty() {
        if let Some(f) = files.iter_mut().find(|f| f.0.ends_with(".js")) {
          f.1.push_str(extra);
        }
      }
      Project { files, config: vec![], cmd, class: format!("run pattern={p}") }
    }
    _ => {
      // scan with several rules
      let with_html = k % 4 == 3 || rng.chance(1, 3);
      let mut config = vec![("sgconfig.yml".to_string(), "ruleDirs: [rules]\n".to_string())];
      let mut ids = vec![];
      for (id, body) in SCAN_RULES {
        let is_html = body.starts_with("language: html") || body.starts_with("language: css");
        let p = if is_html { if with_html { 2 } else { 0 } } else { 2 };
        if rng.chance(p, 5) {
          config.push((format!("rules/{id}.yml"), format!("id: {id}\n{body}")));
          ids.push(*id);
        }
      }
      if with_html && rng.chance(1, 3) {
        // make touching edits across documents likely: a tag rule plus a rule on the embedded code
        for id in ["m-stag", *rng.pick(&["n-etag", "m-stag"]), *rng.pick(&["b-foo", "o-args", "p-callee", "a-num", "d-dbg", "l-var"])] {
          if !ids.contains(&id) {
            let body = SCAN_RULES.iter().find(|r| r.0 == id).unwrap().1;
            config.push((format!("rules/{id}.yml"), format!("id: {id}\n{body}")));
            ids.push(id);
          }
        }
      }
      if ids.is_empty() {
        config.push(("rules/a-num.yml".into(), format!("id: a-num\n{}", SCAN_RULES[0].1)));
        ids.push("a-num");
      }
      Project { files: gen_files(rng, with_html), config, cmd: vec!["scan".into()], class: format!("scan rules={}", ids.join("+")) }
    }
  }
}

#[derive(Clone, Debug)]
struct Announced {
  file: String,
  lang: String,
  node: (usize, usize),
  range: std::ops::Range<usize>,
  rep: String,
  rule: String,
}

fn parse_announced(stdout: &str) -> Option<Vec<Announced>> {
  let mut out = vec![];
  for line in stdout.lines() {
    if line.trim().is_empty() {
      continue;
    }
    let v: Value = serde_json::from_str(line).ok()?;
    let (Some(rep), Some(off)) = (v.get("replacement").and_then(|x| x.as_str()), v.get("replacementOffsets")) else {
      continue; // a finding without fix announces no edit
    };
    if off.is_null() {
      continue;
    }
    let file = v["file"].as_str()?.trim_start_matches("./").to_string();
    out.push(Announced {
      file,
      lang: v["language"].as_str()?.to_string(),
      node: (v["range"]["byteOffset"]["start"].as_u64()? as usize, v["range"]["byteOffset"]["end"].as_u64()? as usize),
      range: off["start"].as_u64()? as usize..off["end"].as_u64()? as usize,
      rep: rep.to_string(),
      rule: v.get("ruleId").and_then(|x| x.as_str()).unwrap_or("").to_string(),
    });
  }
  Some(out)
}

/// document order of one file: host language first, then the injected ones in the order of
/// `injectable_languages` (css before js); inside one document: pre-order of the matched nodes
/// (start ascending, outer node first), then rule id
fn doc_rank(file: &str, lang: &str) -> usize {
  let host = if file.ends_with(".html") { "Html" } else { lang };
  if lang == host {
    0
  } else if lang == "Css" {
    1
  } else {
    2
  }
}

/// the number in the line "Applied N changes" (terminal control sequences may precede it)
fn applied_line(stdout: &str) -> Option<usize> {
  let i = stdout.rfind("Applied ")?;
  let rest = &stdout[i + "Applied ".len()..];
  let digits: String = rest.chars().take_while(|c| c.is_ascii_digit()).collect();
  if rest[digits.len()..].starts_with(" changes") {
    digits.parse().ok()
  } else {
    None
  }
}

pub fn update_cli(ctx: &Ctx, rng: &mut Rng, o: &mut Out) {
  let n = if ctx.thorough { 3_000 } else { 200 };
  let mut cases = 0usize;
  let mut edits_total = 0usize;
  let mut multi_doc_files = 0usize;
  let mut unordered_cases = 0usize;
  let mut touching_files = 0usize;
  let update_op = update_op_name();
  // the minimised H13 witness first, then generated projects
  let witness = Project {
    files: vec![("d.html".into(), "<div foo=\"1\"></div>\n<script>let x = 1;</script>\n".into())],
    config: vec![
      ("sgconfig.yml".into(), "ruleDirs: [rules]\n".into()),
      ("rules/f-attr.yml".into(), format!("id: f-attr\n{}", SCAN_RULES[5].1)),
      ("rules/a-num.yml".into(), format!("id: a-num\n{}", SCAN_RULES[0].1)),
    ],
    cmd: vec!["scan".into()],
    class: "scan witness H13".into(),
  };
  // touching (not overlapping) edits of two documents: start tag 0..8 (html), `foo()` 8..13 (js);
  // and of one document: callee 8..11, argument list 11..13
  let rule_file = |id: &str| (format!("rules/{id}.yml"), format!("id: {id}\n{}", SCAN_RULES.iter().find(|r| r.0 == id).unwrap().1));
  let touching = Project {
    files: vec![("d.html".into(), "<script>foo()</script>\n".into())],
    config: vec![("sgconfig.yml".into(), "ruleDirs: [rules]\n".into()), rule_file("m-stag"), rule_file("b-foo")],
    cmd: vec!["scan".into()],
    class: "scan witness touching edits of two documents".into(),
  };
  let touching_one_doc = Project {
    files: vec![("d.html".into(), "<script>foo()</script>\n".into()), ("m.js".into(), "foo(1)\n".into())],
    config: vec![("sgconfig.yml".into(), "ruleDirs: [rules]\n".into()), rule_file("n-etag"), rule_file("o-args"), rule_file("p-callee")],
    cmd: vec!["scan".into()],
    class: "scan witness touching edits inside one document".into(),
  };
  // a source file that is not valid UTF-8 (a latin-1 byte in a comment) next to a valid one: whatever
  // is announced for a file must be what -U does to its BYTES, and a file nothing is announced for
  // stays byte-for-byte what it was
  for cmd in [
    vec!["run", "-p", "foo($A)", "-r", "bar($A)", "-l", "js"],
    vec!["scan", "--inline-rules", "{id: r, language: js, rule: {pattern: foo($A)}, fix: bar($A)}"],
  ] {
    let raw_files: [(&str, &[u8]); 3] = [
      ("legacy.js", b"// caf\xe9 au lait\nfoo(1)\nlet s = 'na\xefve'; foo(2)\n"),
      ("plain.js", "// café au lait\nfoo(3)\n".as_bytes()),
      ("tail.js", b"foo(4)\n// \xff"),
    ];
    let (d0, d1) = (tempfile::tempdir().expect("tempdir"), tempfile::tempdir().expect("tempdir"));
    for d in [&d0, &d1] {
      for (rel, bytes) in raw_files {
        std::fs::write(d.path().join(rel), bytes).unwrap();
        set_old_mtime(&d.path().join(rel));
      }
    }
    let mut a0: Vec<String> = cmd.iter().map(|s| s.to_string()).collect();
    let mut a1 = a0.clone();
    a0.push("--json=stream".into());
    a1.push("-U".into());
    let (_, out0) = run_cli(d0.path(), &a0, 30);
    let (st1, out1) = run_cli(d1.path(), &a1, 30);
    cases += 1;
    let Some(announced) = parse_announced(&out0) else {
      o.oracle("c18_update", false, json!({"fp": "json output unparsable", "class": "non-utf8 witness", "cmd": cmd}));
      continue;
    };
    let mut total = 0usize;
    for (rel, bytes) in raw_files {
      let mut mine: Vec<&Announced> = announced.iter().filter(|a| a.file == rel).collect();
      mine.sort_by_key(|a| (a.range.start, a.range.end));
      let mut expect: Vec<u8> = vec![];
      let mut at = 0usize;
      let mut ok_ranges = true;
      for a in &mine {
        if a.range.start < at || a.range.end > bytes.len() {
          ok_ranges = false;
          break;
        }
        expect.extend_from_slice(&bytes[at..a.range.start]);
        expect.extend_from_slice(a.rep.as_bytes());
        at = a.range.end;
        total += 1;
      }
      expect.extend_from_slice(&bytes[at.min(bytes.len())..]);
      let got = std::fs::read(d1.path().join(rel)).unwrap_or_default();
      if !ok_ranges || got != expect {
        o.oracle("c18_update", false, json!({"fp": format!("update-all: file is not its old bytes with the announced edits applied (valid utf-8: {})", std::str::from_utf8(bytes).is_ok()),
          "class": "non-utf8 witness", "cmd": cmd, "file": rel, "announced": mine.len(),
          "old": String::from_utf8_lossy(bytes), "new": String::from_utf8_lossy(&got), "expected": String::from_utf8_lossy(&expect)}));
      }
      if mine.is_empty() && was_written(&d1.path().join(rel)) {
        o.oracle("c18_update", false, json!({"fp": "update-all: a file without announced edits was written", "class": "non-utf8 witness", "cmd": cmd, "file": rel}));
      }
    }
    if st1 == "0" && applied_line(&out1).unwrap_or(0) != total {
      o.oracle("c18_update", false, json!({"fp": "update-all: applied count differs from the announced edits", "class": "non-utf8 witness", "cmd": cmd,
        "applied": applied_line(&out1), "announced": total}));
    }
  }
  // many files with two documents each, several walker threads: the payloads of different files
  // interleave on the channel to the single writer (C17: any schedule), every file must still end
  // up with the edits of BOTH of its documents
  let crowd = Project {
    files: (0..320)
      .map(|i| (format!("d{}/p{i}.html", i % 8), format!("<div foo=\"{i}\"></div>\n<script>let x = {i};</script>\n")))
      .collect(),
    config: vec![
      ("sgconfig.yml".into(), "ruleDirs: [rules]\n".into()),
      ("rules/f-attr.yml".into(), format!("id: f-attr\n{}", SCAN_RULES[5].1)),
      ("rules/a-num.yml".into(), format!("id: a-num\n{}", SCAN_RULES[0].1)),
    ],
    cmd: vec!["scan".into(), "-j".into(), "8".into()],
    class: "scan witness many two-document files, 8 threads".into(),
  };
  let mut projects = vec![witness, touching, touching_one_doc, crowd];
  for k in 0..n {
    projects.push(gen_project(rng, k));
  }
  for p in &projects {
    let d0 = tempfile::tempdir().expect("tempdir");
    let d1 = tempfile::tempdir().expect("tempdir");
    write_project(d0.path(), p);
    write_project(d1.path(), p);
    let mut a0 = p.cmd.clone();
    a0.push("--json=stream".into());
    let (st0, out0) = run_cli(d0.path(), &a0, 30);
    let mut a1 = p.cmd.clone();
    a1.push("-U".into());
    let (st1, out1) = run_cli(d1.path(), &a1, 30);
    let Some(mut announced) = parse_announced(&out0) else {
      o.oracle("c18_update", false, json!({"fp": "json output unparsable", "class": p.class, "status": st0}));
      continue;
    };
    if st0 == "hang" || st1 == "hang" {
      o.oracle("c18_update", false, json!({"fp": "cli hangs", "class": p.class, "files": p.files, "config": p.config}));
      continue;
    }
    cases += 1;
    edits_total += announced.len();
    // the announcing run must not touch anything
    for (rel, c) in &p.files {
      if std::fs::read_to_string(d0.path().join(rel)).ok().as_deref() != Some(c.as_str()) || was_written(&d0.path().join(rel)) {
        o.oracle("c18_update", false, json!({"fp": "--json run modified a file", "class": p.class}));
      }
    }
    announced.sort_by(|a, b| {
      (a.file.as_str(), doc_rank(&a.file, &a.lang), a.node.0, std::cmp::Reverse(a.node.1), a.rule.as_str())
        .cmp(&(b.file.as_str(), doc_rank(&b.file, &b.lang), b.node.0, std::cmp::Reverse(b.node.1), b.rule.as_str()))
    });
    let id_of = |f: &str| p.files.iter().position(|x| x.0 == f);
    // payloads as the CLI forms them: one per (file, document)
    let mut payloads: Vec<(usize, String, Vec<RawDiff>)> = vec![];
    let mut last_key: Option<(String, usize)> = None;
    for a in &announced {
      let Some(id) = id_of(&a.file) else {
        o.oracle("c18_update", false, json!({"fp": "edit announced for an unknown file", "file": a.file}));
        continue;
      };
      let key = (a.file.clone(), doc_rank(&a.file, &a.lang));
      if last_key.as_ref() != Some(&key) {
        payloads.push((id, p.files[id].1.clone(), vec![]));
        last_key = Some(key);
      }
      payloads.last_mut().unwrap().2.push((a.range.clone(), a.rep.clone()));
    }
    // observed state after -U
    let mut after = vec![];
    let mut written = vec![];
    for (i, (rel, _)) in p.files.iter().enumerate() {
      let path = d1.path().join(rel);
      let bytes = std::fs::read(&path).unwrap_or_default();
      after.push(json!([i, String::from_utf8_lossy(&bytes).to_string()]));
      if was_written(&path) {
        written.push(i);
      }
    }
    let applied = applied_line(&out1);
    let files_idx: Vec<(usize, String)> = p.files.iter().enumerate().map(|(i, f)| (i, f.1.clone())).collect();
    let mut args = update_args(&files_idx, &payloads);
    args["class"] = json!(p.class);
    args["cmd"] = json!(p.cmd);
    args["project"] = json!({"files": p.files, "config": p.config});
    let result = if st1 == "0" {
      json!({"files": after, "cnt": applied.unwrap_or(0), "applied": applied, "written": written})
    } else {
      json!(format!("exit:{st1}"))
    };
    // `run` without `-l`: the injected documents come out of a HashMap (`extract_injections`), so
    // with fixes in two injected documents of one file the payload order — hence, on the pinned
    // code, the surviving document — is unspecified: no single prediction exists, the case is
    // left to the property oracle below (it is the multi-document finding anyway).
    let unordered = p.cmd[0] == "run"
      && p.files.iter().any(|(rel, _)| {
        let ranks: BTreeSet<usize> = announced.iter().filter(|a| &a.file == rel).map(|a| doc_rank(&a.file, &a.lang)).collect();
        ranks.contains(&1) && ranks.contains(&2)
      });
    if unordered {
      unordered_cases += 1;
    } else {
      o.op(update_op, args, result);
    }

    // ---- the property itself, per file: all announced edits of the file in document order,
    // minus those starting before the end of an earlier accepted one, spliced into the old text
    let mut expect_count = 0usize;
    let mut multi_fp: Option<String> = None;
    let mut config_untouched = true;
    for (rel, c) in &p.config {
      if std::fs::read_to_string(d1.path().join(rel)).ok().as_deref() != Some(c.as_str()) {
        config_untouched = false;
      }
    }
    if !config_untouched {
      o.oracle("c18_update", false, json!({"fp": "-U modified a rule/config file", "class": p.class}));
    }
    for (i, (rel, content)) in p.files.iter().enumerate() {
      let mine: Vec<&Announced> = announced.iter().filter(|a| &a.file == rel).collect();
      let docs: BTreeSet<usize> = mine.iter().map(|a| doc_rank(&a.file, &a.lang)).collect();
      // the property text: the announced edits, "dropping any edit that overlaps an earlier
      // accepted one". "Earlier" = earlier in the order of announcement: host document first, then
      // the injected documents, inside a document the pre-order of the matched nodes (`announced`
      // is sorted that way above). Overlap = the two ranges share a position (touching is not
      // overlapping). The accepted edits are then substituted in the old text.
      let mut acc: Vec<RawDiff> = vec![];
      for a in &mine {
        let overlaps = acc.iter().any(|k| k.0.start < a.range.end && a.range.start < k.0.end);
        if !overlaps {
          acc.push((a.range.clone(), a.rep.clone()));
        }
      }
      acc.sort_by_key(|d| (d.0.start, d.0.end));
      expect_count += acc.len();
      let legal = acc.iter().all(|d| d.0.end <= content.len() && content.is_char_boundary(d.0.start) && content.is_char_boundary(d.0.end));
      if !legal {
        o.oracle("c18_update", false, json!({"fp": "announced edit outside file / off char boundary", "class": p.class, "file": rel}));
        continue;
      }
      let expect = reference_splice(content, &acc);
      let got = std::fs::read(d1.path().join(rel)).unwrap_or_default();
      let multi = docs.len() >= 2;
      if multi {
        multi_doc_files += 1;
      }
      let touching = acc.windows(2).any(|w| w[0].0.end == w[1].0.start);
      if multi && (multi_fp.is_none() || touching) {
        multi_fp = Some(format!("multi-document file (>=2 documents with accepted edits), touching_edits={touching}"));
      }
      if touching {
        touching_files += 1;
      }
      let fp_class = if multi {
        format!("multi-document file (>=2 documents with accepted edits), touching_edits={touching}")
      } else {
        format!("single-document file; {}", p.class)
      };
      if got != expect.as_bytes() {
        o.oracle("c18_update", false, json!({"fp": format!("update-all: {fp_class}"), "class": p.class, "file": rel,
          "original": content, "expect": expect, "got": String::from_utf8_lossy(&got), "project": {"files": p.files, "config": p.config}, "cmd": p.cmd}));
      } else if std::str::from_utf8(&got).is_err() {
        o.oracle("c18_update", false, json!({"fp": "-U wrote invalid utf8", "class": p.class}));
      }
      if acc.is_empty() && was_written(&d1.path().join(rel)) {
        o.oracle("c18_update", false, json!({"fp": "-U opened a file without accepted edit", "class": p.class, "file": rel}));
      }
      let _ = i;
    }
    if applied.unwrap_or(0) != expect_count && st1 == "0" {
      // "Applied N changes" vs the number of edits that should be present; same input class (hence
      // same fingerprint) as a content failure of a multi-document file of this project
      let fp = match &multi_fp {
        Some(c) => format!("update-all: {c}"),
        None => format!("-U count differs; {}", p.class),
      };
      o.oracle("c18_update", false, json!({"fp": fp, "class": p.class, "applied": applied, "expect": expect_count,
        "project": {"files": p.files, "config": p.config}, "cmd": p.cmd}));
    }
  }
  o.oracle("c18_update", true, json!({"cases": cases, "announced_edits": edits_total, "multi_document_files": multi_doc_files, "unordered_injection_payloads_skipped": unordered_cases, "files_with_touching_edits": touching_files}));
}

/// unit `c06_cli`: the edits the real CLI announces under `--json=stream` (Diff::generate):
/// inside the file, on char boundaries, start at / contained in the matched node unless the rule
/// expands, and per document ordered + disjoint after the overlap filter; splice = reference.
fn file_is_js(f: &str) -> bool {
  f.ends_with(".js")
}

/// does `end` coincide with the end of some node inside the node `start..node_end` of the file?
fn ends_at_a_node_end(content: &str, start: usize, node_end: usize, end: usize) -> bool {
  if end == node_end || end == start {
    return true;
  }
  let g = SupportLang::JavaScript.ast_grep(content);
  let found = g.root().dfs().any(|n| n.range().start >= start && n.range().end <= node_end && n.range().end == end);
  found
}

/// `sg run -p P -r T`: the replaced range is the prefix of the node that P matched (the library's
/// `get_match_len` of the pattern on that node; a node's trailing tokens the pattern does not mention,
/// e.g. `;`, stay), whatever the rewrite text looks like. `true` = the announced end differs.
fn run_range_differs_from_match_len(cmd: &[String], content: &str, node: (usize, usize), end: usize) -> bool {
  let Some(i) = cmd.iter().position(|a| a == "-p") else { return false };
  let Some(ptext) = cmd.get(i + 1) else { return false };
  let Ok(pat) = Pattern::try_new(ptext, SupportLang::JavaScript) else { return false };
  let g = SupportLang::JavaScript.ast_grep(content);
  let Some(n) = g.root().dfs().find(|n| n.range().start == node.0 && n.range().end == node.1 && pat.match_node(n.clone()).is_some()) else { return false };
  let want = match pat.get_match_len(n) {
    Some(l) => node.0 + l,
    None => node.1,
  };
  end != want
}

/// An expansion (`expandStart` / `expandEnd`) is a sub-rule of the fix: a variable it shares with the
/// rule stands for the code the rule bound (C04), so `expandEnd: {pattern: $A, stopBy: end}` reaches
/// to the next sibling that REPEATS the matched element and to nothing else. Literal expectations.
fn expansion_shares_variable(o: &mut Out) {
  let Ok(dir) = tempfile::tempdir() else { return };
  let rule = "id: dedupe\nlanguage: JavaScript\nrule: {pattern: $A, kind: number, inside: {kind: array}}\nfix:\n  template: $A\n  expandEnd: {pattern: $A, stopBy: end}\n";
  std::fs::write(dir.path().join("rule.yml"), rule).unwrap();
  // (file, text, expected replacementOffsets of the first finding)
  let files = [("xs.js", "var xs = [7, 8, 9]\n", (10usize, 11usize)), ("ys.js", "var ys = [5, 6, 5]\n", (10, 17)), ("zs.js", "var zs = [1, 22, 1, 22]\n", (10, 18))];
  for (f, t, _) in files {
    std::fs::write(dir.path().join(f), t).unwrap();
  }
  let args: Vec<String> = ["scan", "-r", "rule.yml", "--json=stream", "xs.js", "ys.js", "zs.js"].iter().map(|s| s.to_string()).collect();
  let (st, out) = run_cli(dir.path(), &args, 30);
  let recs: Vec<Value> = out.lines().filter_map(|l| serde_json::from_str(l).ok()).collect();
  let mut cases = 0usize;
  for (f, t, want) in files {
    cases += 1;
    let first = recs.iter().filter(|r| r["file"].as_str() == Some(f)).min_by_key(|r| r["range"]["byteOffset"]["start"].as_u64().unwrap_or(0));
    let got = first.map(|r| (r["replacementOffsets"]["start"].as_u64().unwrap_or(0) as usize, r["replacementOffsets"]["end"].as_u64().unwrap_or(0) as usize));
    if st == "hang" || got != Some(want) {
      o.oracle("c06_cli", false, json!({"fp": "expansion sharing a variable with the rule: the replaced range does not reach to the repetition of the matched element",
        "rule": rule, "file": f, "text": t, "want": [want.0, want.1], "got": got.map(|g| vec![g.0, g.1])}));
    }
  }
  o.oracle("c06_expansion_shared_variable", true, json!({"cases": cases}));
}

pub fn c06_cli(ctx: &Ctx, rng: &mut Rng, o: &mut Out) {
  expansion_shares_variable(o);
  let n = if ctx.thorough { 2_000 } else { 150 };
  let mut cases = 0usize;
  let mut edits = 0usize;
  for k in 0..n {
    let p = gen_project(rng, k);
    let d0 = tempfile::tempdir().expect("tempdir");
    write_project(d0.path(), &p);
    let mut a0 = p.cmd.clone();
    a0.push("--json=stream".into());
    let (st0, out0) = run_cli(d0.path(), &a0, 30);
    if st0 == "hang" {
      o.oracle("c06_cli", false, json!({"fp": "cli hangs", "class": p.class}));
      continue;
    }
    let Some(mut announced) = parse_announced(&out0) else {
      o.oracle("c06_cli", false, json!({"fp": "json output unparsable", "class": p.class}));
      continue;
    };
    cases += 1;
    edits += announced.len();
    announced.sort_by(|a, b| {
      (a.file.as_str(), doc_rank(&a.file, &a.lang), a.node.0, std::cmp::Reverse(a.node.1), a.rule.as_str())
        .cmp(&(b.file.as_str(), doc_rank(&b.file, &b.lang), b.node.0, std::cmp::Reverse(b.node.1), b.rule.as_str()))
    });
    let mut groups: BTreeMap<(String, usize), Vec<&Announced>> = BTreeMap::new();
    for a in &announced {
      let Some((_, content)) = p.files.iter().find(|f| f.0 == a.file) else {
        o.oracle("c06_cli", false, json!({"fp": "edit announced for an unknown file", "file": a.file}));
        continue;
      };
      let expands = a.rule == "e-arr";
      let expands_start = a.rule == "q-arr";
      let r = &a.range;
      let why = if !(r.start <= r.end && r.end <= content.len()) {
        Some("range outside file")
      } else if !(content.is_char_boundary(r.start) && content.is_char_boundary(r.end)) {
        Some("range off char boundary")
      } else if p.class.starts_with("run ") && file_is_js(&a.file) && !ends_at_a_node_end(content, a.node.0, a.node.1, r.end) {
        // C03 `match_len_no_token_split`: the matched prefix ends where some node of the matched
        // subtree ends — never inside a token
        Some("replaced range ends inside a token of the match")
      } else if p.class.starts_with("run ") && file_is_js(&a.file) && run_range_differs_from_match_len(&p.cmd, content, a.node, r.end) {
        Some("replaced range of `run --rewrite` is not the part of the node the pattern matched")
      } else if a.rule == "r-dbg" {
        // reference from the documentation: the range starts at the nearest preceding sibling that
        // is a comment (none: at the node) and ends at the node's end
        let g = SupportLang::JavaScript.ast_grep(content.as_str());
        let node = g.root().dfs().find(|n| n.range().start == a.node.0 && n.range().end == a.node.1 && n.kind() == "debugger_statement");
        let want_start = node
          .and_then(|n| n.prev_all().find(|p| p.kind().contains("comment")).map(|p| p.range().start))
          .unwrap_or(a.node.0);
        if !a.file.ends_with(".js") || (r.start == want_start && r.end == a.node.1) { None } else { Some("expandStart stopBy end does not start at the nearest preceding comment") }
      } else if expands_start {
        // documented meaning of `expandStart: {regex: ','}` (stopBy neighbor): swallow a directly
        // preceding comma token (white space between the comma and the node belongs to the range)
        let before = content[..a.node.0].trim_end_matches([' ', '\n', '\r', '\t']);
        let want_start = if before.ends_with(',') { before.len() - 1 } else { a.node.0 };
        if r.end != a.node.1 || r.start != want_start { Some("expandStart does not start at the preceding comma") } else { None }
      } else if !expands && r.start != a.node.0 {
        Some("range does not start at the match")
      } else if !expands && r.end > a.node.1 {
        Some("range exceeds the match")
      } else if expands && !(r.start <= a.node.0 && a.node.1 <= r.end) {
        Some("expansion does not contain the match")
      } else if expands && (r.start != a.node.0 || r.end != a.node.1 + usize::from(content[a.node.1..].starts_with(','))) {
        // documented meaning of `expandEnd: {regex: ','}` (stopBy neighbor): swallow a directly following comma
        Some("expandEnd does not end at the following comma")
      } else {
        None
      };
      if let Some(why) = why {
        o.oracle("c06_cli", false, json!({"fp": format!("announced edit: {why}"), "class": p.class, "file": a.file, "range": [r.start, r.end], "node": [a.node.0, a.node.1]}));
        continue;
      }
      groups.entry((a.file.clone(), doc_rank(&a.file, &a.lang))).or_default().push(a);
    }
    for ((file, _), g) in groups {
      let content = &p.files.iter().find(|f| f.0 == file).unwrap().1;
      let ds: Vec<RawDiff> = g.iter().map(|a| (a.range.clone(), a.rep.clone())).collect();
      let (acc, cnt) = impl_process(&ds);
      let new = impl_apply(content, &acc);
      let ok = filter_properties(&ds, &acc).is_ok()
        && cnt == acc.len()
        && ordered_disjoint(&acc)
        && new.as_str().map(|t| t == reference_splice(content, &acc) && outside_preserved(content, &acc, t)).unwrap_or(false);
      if !ok {
        o.oracle("c06_cli", false, json!({"fp": format!("announced edits of one document: filter/splice; {}", p.class), "file": file, "ds": diffs_json(&ds)}));
      }
    }
  }
  o.oracle("c06_cli", true, json!({"cases": cases, "announced_edits": edits}));
}

// ---------------------------------------------------------------------------------------
// replay

fn parse_raw(v: &Value) -> Vec<RawDiff> {
  v.as_array()
    .map(|a| {
      a.iter()
        .map(|d| {
          (d[0].as_u64().unwrap_or(0) as usize..d[1].as_u64().unwrap_or(0) as usize, d[2].as_str().unwrap_or("").to_string())
        })
        .collect()
    })
    .unwrap_or_default()
}

pub fn exec(op: &str, a: &Value) -> Option<Value> {
  match op {
    "process_diffs" => {
      let ds = parse_raw(&a["ds"]);
      let (acc, cnt) = impl_process(&ds);
      Some(json!({"acc": diffs_json(&acc), "cnt": cnt}))
    }
    "apply_rewrite" => Some(impl_apply(a["old"].as_str().unwrap_or(""), &parse_raw(&a["ds"]))),
    "update_all" | "update_all_fixed" => {
      let files: Vec<(usize, String)> = a["files"].as_array()?.iter().map(|f| (f[0].as_u64().unwrap_or(0) as usize, f[1].as_str().unwrap_or("").to_string())).collect();
      let payloads: Vec<(usize, String, Vec<RawDiff>)> = a["payloads"].as_array()?.iter().map(|p| (p[0].as_u64().unwrap_or(0) as usize, p[1].as_str().unwrap_or("").to_string(), parse_raw(&p[2]))).collect();
      Some(impl_update_all(&files, &payloads))
    }
    "rw_make_edit" => {
      let old: Vec<u8> = a["old"].as_array()?.iter().map(|x| x.as_u64().unwrap_or(0) as u8).collect();
      let edits: Vec<(usize, usize, Vec<u8>)> = a["edits"].as_array()?.iter().map(|e| {
        (e[0].as_u64().unwrap_or(0) as usize, e[1].as_u64().unwrap_or(0) as usize,
         e[2].as_array().map(|t| t.iter().map(|x| x.as_u64().unwrap_or(0) as u8).collect()).unwrap_or_default())
      }).collect();
      Some(impl_rw_make_edit(&old, &edits, a["offset"].as_u64().unwrap_or(0) as usize))
    }
    _ => None,
  }
}
