//! Stream (1) of C11 and the document assembler of C12: structured rule documents, the facts the
//! Lean loader model needs about their atoms, and the `yaml_load` correspondence unit.
use super::procpool::{self, Class};
use super::rules::{gen_core, gen_rule, harvest, small_sources, Knobs, Material};
use super::yaml::{api_job, input_fingerprint, scan_fingerprint, SrcPool};
use super::Ctx;
use crate::util::*;
use ast_grep_core::matcher::KindMatcher;
use ast_grep_core::{Language, Matcher, Pattern};
use ast_grep_language::SupportLang;
use serde_json::{json, Map, Value};

// ---------------------------------------------------------------------------------------
// facts: what tree-sitter / regex say about the atoms of a document (public API only)
// ---------------------------------------------------------------------------------------

pub struct NotInClass;

type F<T> = Result<T, NotInClass>;

fn as_str(v: &Value) -> F<&str> {
  v.as_str().ok_or(NotInClass)
}

fn kinds_of<M: Matcher<SupportLang>>(m: &M) -> Value {
  match m.potential_kinds() {
    None => Value::Null,
    Some(bs) => json!(bs.iter().collect::<Vec<usize>>()),
  }
}

fn pattern_facts(v: &Value, lang: SupportLang) -> F<Value> {
  let built = match v {
    Value::String(s) => Pattern::try_new(s, lang),
    Value::Object(o) => {
      for k in o.keys() {
        if !["context", "selector", "strictness"].contains(&k.as_str()) {
          return Err(NotInClass);
        }
      }
      let ctx = as_str(o.get("context").ok_or(NotInClass)?)?;
      if let Some(st) = o.get("strictness") {
        if !["cst", "smart", "ast", "relaxed", "signature"].contains(&as_str(st)?) {
          return Err(NotInClass);
        }
      }
      match o.get("selector") {
        Some(sel) => Pattern::contextual(ctx, as_str(sel)?, lang),
        None => Pattern::try_new(ctx, lang),
      }
    }
    _ => return Err(NotInClass),
  };
  Ok(match built {
    Err(_) => json!({"p": "pattern", "ok": false, "vars": [], "kinds": null}),
    Ok(p) => {
      let mut vars: Vec<String> = p.defined_vars().into_iter().map(|s| s.to_string()).collect();
      vars.sort();
      json!({"p": "pattern", "ok": true, "vars": vars, "kinds": kinds_of(&p)})
    }
  })
}

fn pos_facts(v: &Value) -> F<Value> {
  match v {
    Value::Number(n) => Ok(json!({"n": n.as_u64().ok_or(NotInClass)?})),
    Value::String(s) => Ok(json!({"f": s})),
    _ => Err(NotInClass),
  }
}

fn usize_of(v: Option<&Value>) -> F<u64> {
  v.and_then(|x| x.as_u64()).ok_or(NotInClass)
}

const RULE_ORDER: [&str; 13] = ["pattern", "kind", "regex", "nthChild", "range", "all", "any", "not", "matches", "inside", "has", "precedes", "follows"];

fn relation_facts(name: &str, v: &Value, lang: SupportLang) -> F<Value> {
  let o = v.as_object().ok_or(NotInClass)?;
  let mut inner = Map::new();
  let mut stop = json!("neighbor");
  let mut field = Value::Null;
  for (k, x) in o {
    match k.as_str() {
      "stopBy" => {
        stop = match x {
          Value::String(s) if s == "neighbor" || s == "end" => json!(s),
          Value::Object(_) => rule_facts(x, lang)?,
          _ => return Err(NotInClass),
        }
      }
      "field" => {
        let f = as_str(x)?;
        field = match lang.get_ts_language().field_id_for_name(f) {
          Some(id) => json!({"ok": true, "id": id}),
          None => json!({"ok": false, "id": 0}),
        };
      }
      // `Relation` flattens the rule: serde hands the flattened struct only the keys it knows, so
      // an unknown key inside a relation is ignored (`deny_unknown_fields` does not see it)
      _ if !RULE_ORDER.contains(&k.as_str()) => {}
      _ => {
        inner.insert(k.clone(), x.clone());
      }
    }
  }
  Ok(json!({"p": name, "r": rule_facts(&Value::Object(inner), lang)?, "stop": stop, "field": field}))
}

/// a `SerializableRule` as the list of its present fields in `deserialize_rule` order
pub fn rule_facts(v: &Value, lang: SupportLang) -> F<Value> {
  let o = v.as_object().ok_or(NotInClass)?;
  for k in o.keys() {
    if !RULE_ORDER.contains(&k.as_str()) {
      return Err(NotInClass);
    }
  }
  let mut parts = vec![];
  for key in RULE_ORDER {
    let Some(x) = o.get(key) else { continue };
    let part = match key {
      "pattern" => pattern_facts(x, lang)?,
      "kind" => {
        let k = as_str(x)?;
        match KindMatcher::try_new(k, lang) {
          Ok(m) => json!({"p": "kind", "ok": true, "id": m.potential_kinds().and_then(|b| b.iter().next()).unwrap_or(0)}),
          Err(_) => json!({"p": "kind", "ok": false, "id": 0}),
        }
      }
      "regex" => json!({"p": "regex", "ok": regex::Regex::new(as_str(x)?).is_ok()}),
      "nthChild" => match x {
        Value::Object(c) => {
          for k in c.keys() {
            if !["position", "ofRule", "reverse"].contains(&k.as_str()) {
              return Err(NotInClass);
            }
          }
          let of = match c.get("ofRule") {
            None | Some(Value::Null) => Value::Null,
            Some(r) => rule_facts(r, lang)?,
          };
          let rev = match c.get("reverse") {
            None => false,
            Some(Value::Bool(b)) => *b,
            _ => return Err(NotInClass),
          };
          json!({"p": "nthChild", "pos": pos_facts(c.get("position").ok_or(NotInClass)?)?, "of": of, "rev": rev})
        }
        _ => json!({"p": "nthChild", "pos": pos_facts(x)?, "of": null, "rev": false}),
      },
      "range" => {
        let s = x.get("start").ok_or(NotInClass)?;
        let e = x.get("end").ok_or(NotInClass)?;
        json!({"p": "range", "sl": usize_of(s.get("line"))?, "sc": usize_of(s.get("column"))?, "el": usize_of(e.get("line"))?, "ec": usize_of(e.get("column"))?})
      }
      "all" | "any" => {
        let a = x.as_array().ok_or(NotInClass)?;
        let rs: F<Vec<Value>> = a.iter().map(|r| rule_facts(r, lang)).collect();
        json!({"p": key, "rs": rs?})
      }
      "not" => json!({"p": "not", "r": rule_facts(x, lang)?}),
      "matches" => json!({"p": "matches", "id": as_str(x)?}),
      _ => relation_facts(key, x, lang)?,
    };
    parts.push(part);
  }
  Ok(json!(parts))
}

fn sorted_pairs(v: Option<&Value>, f: &dyn Fn(&Value) -> F<Value>) -> F<Value> {
  match v {
    None | Some(Value::Null) => Ok(Value::Null),
    Some(Value::Object(o)) => {
      let mut out = vec![];
      for (k, x) in o {
        out.push(json!([k, f(x)?]));
      }
      Ok(json!(out))
    }
    _ => Err(NotInClass),
  }
}

fn trans_facts(v: &Value) -> F<Value> {
  let o = v.as_object().ok_or(NotInClass)?;
  if o.len() != 1 {
    return Err(NotInClass);
  }
  let (kind, body) = o.iter().next().unwrap();
  let b = body.as_object().ok_or(NotInClass)?;
  let src = as_str(b.get("source").ok_or(NotInClass)?)?;
  let allowed: &[&str] = match kind.as_str() {
    "substring" => &["source", "startChar", "endChar"],
    "replace" => &["source", "replace", "by"],
    "convert" => &["source", "toCase", "separatedBy"],
    "rewrite" => &["source", "rewriters", "joinBy"],
    _ => return Err(NotInClass),
  };
  if b.keys().any(|k| !allowed.contains(&k.as_str())) {
    return Err(NotInClass);
  }
  Ok(match kind.as_str() {
    "substring" => {
      for k in ["startChar", "endChar"] {
        if let Some(x) = b.get(k) {
          let n = x.as_i64().ok_or(NotInClass)?;
          if n < i32::MIN as i64 || n > i32::MAX as i64 {
            return Err(NotInClass);
          }
        }
      }
      json!({"t": "substring", "src": src})
    }
    "replace" => {
      let r = as_str(b.get("replace").ok_or(NotInClass)?)?;
      as_str(b.get("by").ok_or(NotInClass)?)?;
      json!({"t": "replace", "src": src, "rx": regex::Regex::new(r).is_ok()})
    }
    "convert" => {
      as_str(b.get("toCase").ok_or(NotInClass)?)?;
      json!({"t": "convert", "src": src})
    }
    _ => {
      let rw = b.get("rewriters").and_then(|x| x.as_array()).ok_or(NotInClass)?;
      let names: F<Vec<&str>> = rw.iter().map(as_str).collect();
      json!({"t": "rewrite", "src": src, "rw": names?})
    }
  })
}

fn expansion_facts(v: Option<&Value>, lang: SupportLang) -> F<Value> {
  match v {
    None => Ok(Value::Null),
    Some(x) => {
      let rel = relation_facts("x", x, lang)?;
      if !rel["field"].is_null() {
        // `Relation.field` is accepted by serde and ignored by `Expansion::parse`
      }
      Ok(json!({"r": rel["r"], "stop": rel["stop"]}))
    }
  }
}

pub fn fix_facts(v: Option<&Value>, lang: SupportLang) -> F<Value> {
  match v {
    None | Some(Value::Null) => Ok(Value::Null),
    Some(Value::String(s)) => Ok(json!({"s": s})),
    Some(Value::Object(o)) => {
      if o.keys().any(|k| !["template", "expandStart", "expandEnd"].contains(&k.as_str())) {
        return Err(NotInClass);
      }
      Ok(json!({"t": as_str(o.get("template").ok_or(NotInClass)?)?, "es": expansion_facts(o.get("expandStart"), lang)?, "ee": expansion_facts(o.get("expandEnd"), lang)?}))
    }
    _ => Err(NotInClass),
  }
}

pub fn core_facts(o: &Map<String, Value>, lang: SupportLang) -> F<Value> {
  Ok(json!({
    "rule": rule_facts(o.get("rule").ok_or(NotInClass)?, lang)?,
    "constraints": sorted_pairs(o.get("constraints"), &|r| rule_facts(r, lang))?,
    "utils": sorted_pairs(o.get("utils"), &|r| rule_facts(r, lang))?,
    "transform": sorted_pairs(o.get("transform"), &trans_facts)?,
    "fix": fix_facts(o.get("fix"), lang)?,
  }))
}

pub fn expando_of(lang: SupportLang) -> char {
  lang.expando_char()
}

/// the facts document of a rule config (`Err` = outside the structured class: serde rejects it)
pub fn doc_facts(doc: &Value, lang: SupportLang, globals: &[(String, Value)]) -> F<Value> {
  let o = doc.as_object().ok_or(NotInClass)?;
  const TOP: [&str; 14] = ["id", "language", "rule", "constraints", "utils", "transform", "fix", "rewriters", "message", "note", "severity", "files", "ignores", "url"];
  for k in o.keys() {
    if !TOP.contains(&k.as_str()) && k != "metadata" && k != "labels" {
      return Err(NotInClass);
    }
  }
  as_str(o.get("id").ok_or(NotInClass)?)?;
  let rewriters = match o.get("rewriters") {
    None | Some(Value::Null) => Value::Null,
    Some(Value::Array(a)) => {
      let mut out = vec![];
      for r in a {
        let ro = r.as_object().ok_or(NotInClass)?;
        if ro.keys().any(|k| !["id", "rule", "constraints", "utils", "transform", "fix"].contains(&k.as_str())) {
          return Err(NotInClass);
        }
        out.push(json!({"id": as_str(ro.get("id").ok_or(NotInClass)?)?, "core": core_facts(ro, lang)?}));
      }
      json!(out)
    }
    _ => return Err(NotInClass),
  };
  let gl: Vec<Value> = globals.iter().map(|(id, kinds)| json!({"id": id, "kinds": kinds})).collect();
  Ok(json!({"core": core_facts(o, lang)?, "rewriters": rewriters, "globals": gl, "expando": expando_of(lang).to_string()}))
}

// ---------------------------------------------------------------------------------------
// the generator
// ---------------------------------------------------------------------------------------

pub struct GenDoc {
  pub doc: Value,
  pub lang: SupportLang,
  /// serde is expected to reject the document (it is outside the structured class)
  pub yaml_err: bool,
  /// the error variant does not depend on hash-map iteration order
  pub cmpv: bool,
  pub use_globals: bool,
  pub faults: Vec<&'static str>,
}

pub fn lang_name(l: SupportLang) -> &'static str {
  match l {
    SupportLang::JavaScript => "JavaScript",
    SupportLang::TypeScript => "TypeScript",
    SupportLang::Tsx => "Tsx",
    SupportLang::Python => "Python",
    SupportLang::Rust => "Rust",
    SupportLang::Go => "Go",
    SupportLang::Html => "Html",
    SupportLang::Css => "Css",
    SupportLang::Java => "Java",
    SupportLang::C => "C",
    SupportLang::Cpp => "Cpp",
    SupportLang::Ruby => "Ruby",
    SupportLang::Lua => "Lua",
    SupportLang::Kotlin => "Kotlin",
    SupportLang::Swift => "Swift",
    SupportLang::Bash => "Bash",
    SupportLang::CSharp => "CSharp",
    SupportLang::Elixir => "Elixir",
    SupportLang::Haskell => "Haskell",
    SupportLang::Json => "Json",
    SupportLang::Php => "Php",
    SupportLang::Scala => "Scala",
    SupportLang::Yaml => "Yaml",
  }
}

/// the fixed global utilities of a language (registered before the document when `use_globals`)
pub fn global_docs(lang: SupportLang, m: &Material) -> Vec<Value> {
  let k0 = m.kinds.first().cloned().unwrap_or_else(|| "identifier".into());
  let k1 = m.kinds.get(1).cloned().unwrap_or_else(|| k0.clone());
  vec![
    json!({"id": "g0", "language": lang_name(lang), "rule": {"kind": k0}}),
    json!({"id": "g1", "language": lang_name(lang), "rule": {"any": [{"kind": k1}, {"matches": "g0"}]}}),
    json!({"id": "g2", "language": lang_name(lang), "rule": {"regex": "a"}}),
  ]
}

fn global_kinds(lang: SupportLang, m: &Material) -> Vec<(String, Value)> {
  let docs = global_docs(lang, m);
  let kid = |k: &str| KindMatcher::try_new(k, lang).ok().and_then(|m| m.potential_kinds()).and_then(|b| b.iter().next());
  let k0 = docs[0]["rule"]["kind"].as_str().and_then(kid);
  let k1 = docs[1]["rule"]["any"][0]["kind"].as_str().and_then(kid);
  let g0 = k0.map(|k| json!([k])).unwrap_or(Value::Null);
  let g1 = match (k0, k1) {
    (Some(a), Some(b)) if a == b => json!([a]),
    (Some(a), Some(b)) => json!([b, a]),
    _ => Value::Null,
  };
  vec![("g0".into(), g0), ("g1".into(), g1), ("g2".into(), Value::Null)]
}

fn vars_in(v: &Value, out: &mut Vec<String>) {
  match v {
    Value::String(s) => {
      let b = s.as_bytes();
      let mut i = 0;
      while i < b.len() {
        if b[i] == b'$' {
          let mut j = i;
          while j < b.len() && b[j] == b'$' {
            j += 1;
          }
          let st = j;
          while j < b.len() && (b[j].is_ascii_uppercase() || b[j].is_ascii_digit() || b[j] == b'_') {
            j += 1;
          }
          if j > st && !b[st].is_ascii_digit() {
            let name = s[st..j].to_string();
            if !out.contains(&name) {
              out.push(name);
            }
          }
          i = j.max(i + 1);
        } else {
          i += 1;
        }
      }
    }
    Value::Array(a) => a.iter().for_each(|x| vars_in(x, out)),
    Value::Object(o) => o.iter().for_each(|(k, x)| {
      if k == "pattern" || k == "context" || k == "all" || k == "any" || k == "not" || k == "inside" || k == "has" || k == "precedes" || k == "follows" || k == "ofRule" || k == "nthChild" || k == "stopBy" {
        vars_in(x, out)
      }
    }),
    _ => {}
  }
}

/// all rule objects of a value (paths), for placing a fault somewhere inside a rule
fn rule_objects<'a>(v: &'a mut Value, out: &mut Vec<*mut Value>) {
  if v.is_object() {
    out.push(v as *mut Value);
  }
  match v {
    Value::Object(o) => {
      for (k, x) in o.iter_mut() {
        match k.as_str() {
          "all" | "any" => {
            if let Some(a) = x.as_array_mut() {
              for r in a {
                rule_objects(r, out);
              }
            }
          }
          "not" | "inside" | "has" | "precedes" | "follows" => rule_objects(x, out),
          "stopBy" if x.is_object() => rule_objects(x, out),
          "nthChild" => {
            if let Some(of) = x.get_mut("ofRule") {
              rule_objects(of, out);
            }
          }
          _ => {}
        }
      }
    }
    _ => {}
  }
}

fn pick_rule_object<'a>(root: &'a mut Value, rng: &mut Rng) -> &'a mut Value {
  let mut ptrs = vec![];
  rule_objects(root, &mut ptrs);
  let p = ptrs[rng.below(ptrs.len())];
  // SAFETY: the pointers come from one traversal of `root`, which is mutably borrowed for 'a and
  // not touched in between
  unsafe { &mut *p }
}

fn wrap_ref(op: &str, target: &str, m: &Material) -> Value {
  let base_kind = m.kinds.first().cloned().unwrap_or_else(|| "identifier".into());
  match op {
    "matches" => json!({"matches": target}),
    "all" => json!({"all": [{"kind": base_kind}, {"matches": target}]}),
    "any" => json!({"any": [{"kind": base_kind}, {"matches": target}]}),
    "not" => json!({"not": {"matches": target}}),
    "inside" => json!({"inside": {"matches": target, "stopBy": "end"}}),
    "has" => json!({"has": {"matches": target, "stopBy": "end"}}),
    "precedes" => json!({"precedes": {"matches": target, "stopBy": "end"}}),
    "follows" => json!({"follows": {"matches": target, "stopBy": "end"}}),
    "ofRule" => json!({"nthChild": {"position": 1, "ofRule": {"matches": target}}}),
    "stopBy" => json!({"inside": {"kind": base_kind, "stopBy": {"matches": target}}}),
    _ => json!({"has": {"kind": base_kind, "stopBy": {"matches": target}}}),
  }
}

/// harmless sibling keys next to the referencing operator of a cycle member
fn decorate(obj: &mut Value, op: &str, rng: &mut Rng, m: &Material, utils: &mut Map<String, Value>) {
  let k = m.kinds.first().cloned().unwrap_or_else(|| "identifier".into());
  let n = rng.below(3);
  for _ in 0..n {
    match rng.below(8) {
      0 if op != "matches" => {
        utils.insert("leaf".into(), json!({"kind": k}));
        obj["matches"] = json!("leaf");
      }
      1 => obj["kind"] = json!(k),
      2 => obj["regex"] = json!("a"),
      3 if op != "not" => obj["not"] = json!({"kind": k}),
      4 if op != "any" => obj["any"] = json!([{"kind": k}, {"regex": "^1"}]),
      5 if op != "all" => obj["all"] = json!([{"kind": k}]),
      6 if op != "ofRule" => obj["nthChild"] = json!(1),
      7 if op != "has" && op != "stopByHas" => obj["has"] = json!({"kind": k}),
      _ => {}
    }
  }
}

pub const CYCLE_OPS: [&str; 11] = ["matches", "all", "any", "not", "inside", "has", "precedes", "follows", "ofRule", "stopBy", "stopByHas"];

pub const FAULTS: [&str; 46] = [
  "src_empty", "src_multibyte", "src_nosigil", "src_dollar_only", "src_double", "src_triple_only", "replace_bad_regex", "rule_bad_regex", "nth_huge_str", "nth_huge_num",
  "nth_edge", "nth_big_step", "nth_u64max", "nth_neg", "nth_float", "nth_illegal", "nth_in_of", "unknown_kind", "empty_kind", "empty_pattern",
  "unknown_field", "field_on_precedes", "unknown_key", "type_swap", "dup_rewriter", "cycle_utils", "cycle_utils_self", "cycle_transform", "cycle_transform_self", "undef_util",
  "undef_util_in_util", "undef_util_in_constraint", "undef_util_in_expansion", "undef_rewriter", "undef_rewriter_no_section", "undef_var_fix", "undef_var_transform", "undef_constraint_key", "transform_key_defined",
  "no_kinds", "deep", "range_invalid", "range_huge", "rewriter_no_fix", "empty_rule", "rewriter_util_clash",
];

fn ensure_transform<'a>(core: &'a mut Map<String, Value>) -> &'a mut Map<String, Value> {
  if !core.get("transform").map(|t| t.is_object()).unwrap_or(false) {
    core.insert("transform".into(), json!({}));
  }
  core.get_mut("transform").unwrap().as_object_mut().unwrap()
}

fn ensure_utils<'a>(core: &'a mut Map<String, Value>) -> &'a mut Map<String, Value> {
  if !core.get("utils").map(|t| t.is_object()).unwrap_or(false) {
    core.insert("utils".into(), json!({}));
  }
  core.get_mut("utils").unwrap().as_object_mut().unwrap()
}

fn deep_rule(depth: usize, op: &str, leaf: Value) -> Value {
  let mut r = leaf;
  for _ in 0..depth {
    r = match op {
      "all" => json!({"all": [r]}),
      "any" => json!({"any": [r]}),
      "not" => json!({"not": r}),
      "inside" => json!({"inside": r}),
      _ => json!({"has": r}),
    };
  }
  r
}

/// one fault; returns false when it does not apply to this document
fn inject(fault: &'static str, g: &mut GenDoc, m: &Material, rng: &mut Rng) -> bool {
  let kind0 = m.kinds.first().cloned().unwrap_or_else(|| "identifier".into());
  let doc = g.doc.as_object_mut().unwrap();
  let mut defined = vec![];
  vars_in(doc.get("rule").unwrap(), &mut defined);
  let some_var = defined.first().cloned();
  match fault {
    "src_empty" | "src_multibyte" | "src_nosigil" | "src_dollar_only" | "src_double" | "src_triple_only" => {
      let src = match fault {
        "src_empty" => "".to_string(),
        "src_multibyte" => rng.pick(&["é", "éA", "中$A", "𝒳"]).to_string(),
        "src_nosigil" => rng.pick(&["A", "V1", "x", " $A"]).to_string(),
        "src_dollar_only" => "$".to_string(),
        "src_double" => format!("$${}", some_var.clone().unwrap_or_else(|| "A".into())),
        _ => "$$$".to_string(),
      };
      let t = ensure_transform(doc);
      let body = match rng.below(4) {
        0 => json!({"substring": {"source": src}}),
        1 => json!({"replace": {"source": src, "replace": "a", "by": "b"}}),
        2 => json!({"convert": {"source": src, "toCase": "upperCase"}}),
        _ => json!({"rewrite": {"source": src, "rewriters": []}}),
      };
      t.insert("TF".into(), body);
    }
    "replace_bad_regex" => {
      let Some(v) = some_var else { return false };
      let t = ensure_transform(doc);
      t.insert("TF".into(), json!({"replace": {"source": format!("${v}"), "replace": rng.pick(&["(", "[", "a{2,1}", "\\", "(?P<n>", "*"]), "by": "x"}}));
    }
    "rule_bad_regex" => {
      let r = pick_rule_object(doc.get_mut("rule").unwrap(), rng);
      r["regex"] = json!(rng.pick(&["(", "[a-", "\\p{Nope}", "(?<!a)b", "a{99999999}"]));
    }
    "nth_huge_str" | "nth_huge_num" | "nth_edge" | "nth_big_step" | "nth_u64max" | "nth_neg" | "nth_float" | "nth_illegal" | "nth_in_of" => {
      let val = match fault {
        "nth_huge_str" => json!(rng.pick(&["99999999999", "2147483648", "12345678901234567890123", "n+2147483648", "-n-99999999999"])),
        "nth_huge_num" => json!(*rng.pick(&[4294967297u64, 2147483648, 4294967296, 9007199254740993])),
        "nth_edge" => json!(rng.pick(&["n-2147483647", "2147483647", "-n+2147483647", "2147483647n-2147483647", "-2147483647n", "n+2147483647"])),
        "nth_big_step" => json!(rng.pick(&["2147483648n+1", "99999999999n", "-2147483648n"])),
        "nth_u64max" => json!(u64::MAX),
        "nth_neg" => {
          g.yaml_err = true;
          json!(-1)
        }
        "nth_float" => {
          g.yaml_err = true;
          json!(1.5)
        }
        "nth_in_of" => json!({"position": rng.pick(&["99999999999", "n", "2n+"]), "ofRule": {"nthChild": rng.pick(&["99999999999", "1", "+"])}}),
        _ => json!(rng.pick(&["2x", "n n", "+", "", "n+-1", "١"])),
      };
      let doc = g.doc.as_object_mut().unwrap();
      let r = pick_rule_object(doc.get_mut("rule").unwrap(), rng);
      r["nthChild"] = if rng.chance(1, 3) && fault != "nth_in_of" { json!({"position": val, "reverse": rng.chance(1, 2)}) } else { val };
    }
    "unknown_kind" | "empty_kind" => {
      let r = pick_rule_object(doc.get_mut("rule").unwrap(), rng);
      r["kind"] = json!(if fault == "empty_kind" { "" } else { "no_such_kind_" });
    }
    "empty_pattern" => {
      let r = pick_rule_object(doc.get_mut("rule").unwrap(), rng);
      r["pattern"] = json!(rng.pick(&["", " ", "\n", "$$$", "$A $B", "// c"]));
    }
    "unknown_field" | "field_on_precedes" => {
      let rel = if fault == "unknown_field" { *rng.pick(&["inside", "has"]) } else { *rng.pick(&["precedes", "follows"]) };
      let fname = if fault == "unknown_field" { "no_such_field".to_string() } else { m.fields.first().cloned().unwrap_or_else(|| "name".into()) };
      let r = pick_rule_object(doc.get_mut("rule").unwrap(), rng);
      r[rel] = json!({"kind": kind0, "field": fname});
    }
    "unknown_key" => {
      // rejected by serde, except inside a relation (decided by the schema walk of `doc_facts`)
      let doc = g.doc.as_object_mut().unwrap();
      let r = pick_rule_object(doc.get_mut("rule").unwrap(), rng);
      r[*rng.pick(&["foo", "Pattern", "stopBy", "field", "kinds", "matchs"])] = json!("x");
    }
    "type_swap" => {
      g.yaml_err = true;
      let doc = g.doc.as_object_mut().unwrap();
      let r = pick_rule_object(doc.get_mut("rule").unwrap(), rng);
      match rng.below(6) {
        0 => r["kind"] = json!(5),
        1 => r["all"] = json!({"kind": kind0}),
        2 => r["not"] = json!([{"kind": kind0}]),
        3 => r["matches"] = json!(["a"]),
        4 => r["regex"] = Value::Null,
        _ => r["has"] = json!("x"),
      }
    }
    "dup_rewriter" => {
      doc.insert("rewriters".into(), json!([{"id": "rw", "rule": {"kind": kind0}, "fix": "x"}, {"id": "rw", "rule": {"kind": kind0}, "fix": "y"}]));
    }
    "cycle_utils" | "cycle_utils_self" => {
      let op1 = *rng.pick(&CYCLE_OPS);
      let op2 = *rng.pick(&CYCLE_OPS);
      let u = ensure_utils(doc);
      if fault == "cycle_utils_self" {
        let mut c0 = wrap_ref(op1, "cy0", m);
        decorate(&mut c0, op1, rng, m, u);
        u.insert("cy0".into(), c0);
      } else {
        let mut c0 = wrap_ref(op1, "cy1", m);
        let mut c1 = wrap_ref(op2, "cy0", m);
        decorate(&mut c0, op1, rng, m, u);
        decorate(&mut c1, op2, rng, m, u);
        u.insert("cy0".into(), c0);
        u.insert("cy1".into(), c1);
      }
      if rng.chance(2, 3) {
        let rule = doc.get_mut("rule").unwrap();
        *rule = json!({"all": [rule.clone(), {"matches": "cy0"}]});
      }
    }
    "cycle_transform" | "cycle_transform_self" => {
      let t = ensure_transform(doc);
      if fault == "cycle_transform_self" {
        t.insert("CA".into(), json!({"substring": {"source": "$CA"}}));
      } else {
        t.insert("CA".into(), json!({"substring": {"source": "$CB"}}));
        t.insert("CB".into(), json!({"convert": {"source": rng.pick(&["$CA", "$$$CA"]), "toCase": "lowerCase"}}));
      }
    }
    "undef_util" => {
      let r = pick_rule_object(doc.get_mut("rule").unwrap(), rng);
      r["matches"] = json!(rng.pick(&["nope", "", "u9", "G0"]));
    }
    "undef_util_in_util" => {
      let u = ensure_utils(doc);
      u.insert("uu".into(), json!({"kind": kind0, "matches": "nope"}));
    }
    "undef_util_in_constraint" => {
      let Some(v) = some_var else { return false };
      doc.insert("constraints".into(), json!({v: {"matches": "nope"}}));
    }
    "undef_util_in_expansion" => {
      doc.insert("fix".into(), json!({"template": "x", "expandEnd": {"matches": "nope"}}));
    }
    "undef_rewriter" | "undef_rewriter_no_section" => {
      let Some(v) = some_var else { return false };
      let t = ensure_transform(doc);
      t.insert("RW".into(), json!({"rewrite": {"source": format!("${v}"), "rewriters": ["nope"]}}));
      if fault == "undef_rewriter" {
        doc.insert("rewriters".into(), json!([{"id": "rw", "rule": {"kind": kind0}, "fix": "x"}]));
      } else {
        doc.remove("rewriters");
      }
    }
    "undef_var_fix" => {
      let form = rng.below(2);
      doc.insert("fix".into(), if form == 0 { json!("x $NOPE y") } else { json!({"template": "x $$$NOPE y"}) });
    }
    "undef_var_transform" => {
      let t = ensure_transform(doc);
      t.insert("TU".into(), json!({"substring": {"source": "$NOPE"}}));
    }
    "undef_constraint_key" => {
      doc.insert("constraints".into(), json!({"NOPE": {"kind": kind0}}));
    }
    "transform_key_defined" => {
      let Some(v) = some_var else { return false };
      let t = ensure_transform(doc);
      t.insert(v.clone(), json!({"substring": {"source": format!("${v}")}}));
    }
    "no_kinds" => {
      doc.insert("rule".into(), rng.pick(&[json!({"regex": "a"}), json!({"not": {"kind": kind0}}), json!({"inside": {"kind": kind0}}), json!({"any": [{"kind": kind0}, {"regex": "a"}]}), json!({"nthChild": 1}), json!({"any": []}), json!({"all": []})]).clone());
    }
    "deep" => {
      let depth = *rng.pick(&[20usize, 60, 130, 300, 2000]);
      let op = *rng.pick(&["all", "any", "not", "inside", "has"]);
      doc.insert("rule".into(), json!({"kind": kind0, "all": [deep_rule(depth, op, json!({"kind": kind0}))]}));
      if depth > 100 {
        // serde_yaml's recursion limit
        g.yaml_err = true;
      }
    }
    "range_invalid" | "range_huge" => {
      let r = pick_rule_object(doc.get_mut("rule").unwrap(), rng);
      r["range"] = if fault == "range_invalid" {
        json!({"start": {"line": 3, "column": rng.below(9)}, "end": {"line": rng.below(4), "column": 2}})
      } else {
        json!({"start": {"line": 0, "column": 0}, "end": {"line": u64::MAX, "column": u64::MAX}})
      };
    }
    "rewriter_no_fix" => {
      doc.insert("rewriters".into(), json!([{"id": "rw", "rule": {"kind": kind0}}]));
    }
    "empty_rule" => {
      let r = pick_rule_object(doc.get_mut("rule").unwrap(), rng);
      *r = json!({});
    }
    "rewriter_util_clash" => {
      let u = ensure_utils(doc);
      u.insert("shared".into(), json!({"kind": kind0}));
      doc.insert("rewriters".into(), json!([{"id": "rw", "rule": {"matches": "shared"}, "utils": {"shared": {"kind": kind0}}, "fix": "x"}]));
    }
    _ => return false,
  }
  true
}

fn gen_transform(defined: &[String], rng: &mut Rng) -> Map<String, Value> {
  let mut t = Map::new();
  let n = 1 + rng.below(3);
  let mut avail: Vec<String> = defined.to_vec();
  for i in 0..n {
    let key = format!("T{i}");
    let src_name = if avail.is_empty() { "V1".to_string() } else { rng.pick(&avail).clone() };
    let src = format!("{}{}", rng.pick(&["$", "$", "$", "$$$"]), src_name);
    let body = match rng.below(4) {
      0 => json!({"substring": {"source": src, "startChar": rng.range(-3, 3), "endChar": rng.range(-3, 6)}}),
      1 => json!({"replace": {"source": src, "replace": rng.pick(&["a", "\\d+", "^.", "(x)(y)?"]), "by": rng.pick(&["", "b", "$1"])}}),
      2 => json!({"convert": {"source": src, "toCase": rng.pick(&["upperCase", "lowerCase", "camelCase", "snakeCase", "kebabCase", "pascalCase", "capitalize"])}}),
      _ => json!({"rewrite": {"source": src, "rewriters": ["rw0"], "joinBy": ", "}}),
    };
    t.insert(key.clone(), body);
    avail.push(key);
  }
  t
}

fn gen_fix(defined: &[String], tkeys: &[String], m: &Material, rng: &mut Rng) -> Value {
  let mut tmpl = String::new();
  let n = 1 + rng.below(4);
  for _ in 0..n {
    match rng.below(5) {
      0 | 1 if !defined.is_empty() => tmpl.push_str(&format!("{}{}", rng.pick(&["$", "$", "$$$"]), rng.pick(defined))),
      2 if !tkeys.is_empty() => tmpl.push_str(&format!("${}", rng.pick(tkeys))),
      3 => tmpl.push_str(*rng.pick(&["foo(", ")", " + ", "\n  ", "$", "$$", "$lower", "é"])),
      _ => tmpl.push_str(*rng.pick(&["x", "bar", " "])),
    }
  }
  if rng.chance(1, 2) {
    json!(tmpl)
  } else {
    let mut o = json!({"template": tmpl});
    if rng.chance(1, 2) {
      o["expandEnd"] = json!({"regex": ",", "stopBy": "neighbor"});
    } else if rng.chance(1, 3) {
      // any rule may be an expansion, a bare relation included (it answers with the RELATED node,
      // which may lie on the other side of the match: the replaced range is then empty, not negative)
      let mut k = Knobs { share_vars: false, utils: vec![], var_counter: 60 };
      o["expandEnd"] = gen_rule(m, rng, &mut k, 1);
    }
    if rng.chance(1, 4) {
      let mut k = Knobs { share_vars: false, utils: vec![], var_counter: 50 };
      o["expandStart"] = gen_rule(m, rng, &mut k, 1);
    }
    o
  }
}

/// a structured rule document: `gen_core` + id/language + transform / fix / rewriters, then faults
pub fn gen_doc(m: &Material, lang: SupportLang, rng: &mut Rng) -> GenDoc {
  let depth = 1 + rng.below(3);
  let core = gen_core(m, rng, false, depth);
  let mut doc = core.as_object().unwrap().clone();
  // `globals` is a key of the C04/C05 harness (global utility files of a project), not of a rule
  // document: this unit registers its own fixed global utilities (`global_docs`)
  doc.remove("globals");
  doc.insert("id".into(), json!(rng.pick(&["r", "my-rule", "R_1", ""])));
  doc.insert("language".into(), json!(lang_name(lang)));
  // most rules get a kind so that they have potential kinds
  if rng.chance(3, 5) && !m.kinds.is_empty() {
    let r = doc.get_mut("rule").unwrap();
    if r.get("kind").is_none() {
      r["kind"] = json!(rng.pick(&m.kinds));
    }
  }
  let use_globals = rng.chance(1, 5);
  if use_globals {
    let r = doc.get_mut("rule").unwrap();
    if r.get("matches").is_none() {
      r["matches"] = json!(rng.pick(&["g0", "g1", "g2"]));
    }
  }
  let mut defined = vec![];
  vars_in(doc.get("rule").unwrap(), &mut defined);
  let mut tkeys = vec![];
  let mut want_rw = false;
  if rng.chance(1, 2) {
    let t = gen_transform(&defined, rng);
    tkeys = t.keys().cloned().collect();
    want_rw = t.values().any(|b| b.get("rewrite").is_some());
    doc.insert("transform".into(), Value::Object(t));
  }
  if rng.chance(1, 2) {
    doc.insert("fix".into(), gen_fix(&defined, &tkeys, m, rng));
  }
  if want_rw || rng.chance(1, 8) {
    let mut k = Knobs { share_vars: false, utils: vec![], var_counter: 80 };
    let n = 1 + rng.below(2);
    let mut rws = vec![];
    for i in 0..n {
      let mut r = json!({"id": format!("rw{i}"), "rule": gen_rule(m, rng, &mut k, 1), "fix": rng.pick(&["x", "$V81", "($V1)", ""])});
      if rng.chance(1, 4) {
        r["utils"] = json!({format!("ru{i}"): {"kind": m.kinds.first().cloned().unwrap_or_default()}});
      }
      rws.push(r);
    }
    doc.insert("rewriters".into(), json!(rws));
  }
  if rng.chance(1, 3) {
    doc.insert("message".into(), json!(format!("found {}", defined.first().map(|v| format!("${v}")).unwrap_or_default())));
    doc.insert("severity".into(), json!(rng.pick(&["hint", "info", "warning", "error", "off"])));
  }
  let mut g = GenDoc { doc: Value::Object(doc), lang, yaml_err: false, cmpv: true, use_globals, faults: vec![] };
  let nf = match rng.below(10) {
    0..=2 => 0,
    3..=8 => 1,
    _ => 2,
  };
  for _ in 0..nf {
    let f = *rng.pick(&FAULTS);
    // a second nthChild fault would overwrite the first one's value (and its `yaml_err` verdict)
    if f.starts_with("nth_") && g.faults.iter().any(|x| x.starts_with("nth_")) {
      continue;
    }
    if inject(f, &mut g, m, rng) {
      g.faults.push(f);
    }
    // `yaml_err` is a verdict about the document as it is now: a later fault could overwrite the
    // offending value (`deep` and `no_kinds` replace the whole rule) and leave the verdict stale
    if g.yaml_err {
      break;
    }
  }
  // the generated base document may itself contain order-dependent errors (two utilities, two
  // constraints ...): the variant is compared only when at most one map entry can be at fault
  g
}

/// hand-written witnesses of the confirmed defects (H2, H3, H4, H8, H9 and the ones found here)
pub fn witnesses() -> Vec<String> {
  vec![
    "id: h3\nlanguage: js\nrule: {pattern: foo($A)}\ntransform: {X: {substring: {source: \"\"}}}\n".into(),
    "id: h3b\nlanguage: js\nrule: {pattern: foo($A)}\ntransform: {X: {substring: {source: \"é\"}}}\n".into(),
    "id: h2\nlanguage: js\nrule: {pattern: foo($$$A)}\ntransform: {X: {replace: {source: $$$A, replace: \"(\", by: x}}}\nfix: \"$X\"\n".into(),
    "id: h8\nlanguage: js\nrule: {kind: identifier, nthChild: \"99999999999\"}\n".into(),
    "id: h8b\nlanguage: js\nrule: {kind: identifier, nthChild: \"n-2147483647\"}\n".into(),
    "id: h8c\nlanguage: js\nrule: {kind: identifier, nthChild: 4294967297}\n".into(),
    "id: h4\nlanguage: js\nrule: {pattern: foo($$$A)}\ntransform: {X: {substring: {source: $$$A}}}\nfix: {template: \"bar($X)\"}\n".into(),
    // utility cycles whose members carry a `matches` to a harmless leaf NEXT TO the operator that closes
    // the cycle (`any`, `all`, `not`, `nthChild.ofRule`): every key of a rule object is a dependency
    "id: cycdec1\nlanguage: js\nutils:\n  leaf: {kind: identifier}\n  A: {matches: leaf, any: [{kind: number}, {matches: B}]}\n  B: {kind: identifier, not: {matches: A}}\nrule: {kind: identifier, matches: A}\n".into(),
    "id: cycdec2\nlanguage: js\nutils:\n  leaf: {kind: identifier}\n  A: {matches: leaf, all: [{matches: B}]}\n  B: {matches: leaf, nthChild: {position: 1, ofRule: {matches: A}}}\nrule: {kind: identifier, matches: B}\n".into(),
    "id: cycdec3\nlanguage: python\nutils:\n  leaf: {kind: identifier}\n  A: {matches: leaf, not: {matches: A}}\nrule: {kind: identifier, matches: A}\n".into(),
    "id: cycdec4\nlanguage: js\nutils:\n  leaf: {kind: identifier}\n  A: {kind: identifier, matches: leaf, regex: a, any: [{all: [{not: {matches: C}}]}]}\n  B: {matches: A}\n  C: {any: [{matches: B}, {kind: number}]}\nrule: {kind: identifier, matches: C}\n".into(),
    // a rewriter whose fix expands beyond the text that is rewritten (ffe2eb7), with and without joinBy
    "id: rwexp\nlanguage: js\nrule: {pattern: foo($A)}\ntransform: {R: {rewrite: {source: $A, rewriters: [rw]}}}\nrewriters:\n- {id: rw, rule: {kind: number}, fix: {template: X, expandEnd: {regex: '\\)'}}}\nfix: bar($R)\n".into(),
    "id: rwexp2\nlanguage: js\nrule: {pattern: foo($$$A)}\ntransform: {R: {rewrite: {source: $$$A, rewriters: [rw], joinBy: '+'}}}\nrewriters:\n- {id: rw, rule: {kind: number}, fix: {template: X, expandStart: {regex: '\\('}, expandEnd: {regex: '[,)]'}}}\nfix: bar($R)\n".into(),
    // a rule that is turned off AND restricted to paths: it reports nothing, through any printer
    "id: offglob\nlanguage: js\nseverity: off\nfiles: ['**/*.js', 'src/**']\nrule: {kind: identifier}\n".into(),
    "id: offglob2\nlanguage: js\nseverity: off\nignores: ['**/nothing/**']\nrule: {pattern: foo($$$A)}\n".into(),
    // expansions made of a bare relation: the related node lies BEFORE the match for expandEnd, AFTER it for expandStart
    "id: expinv1\nlanguage: js\nrule: {kind: identifier}\nfix: {template: X, expandEnd: {follows: {kind: number, stopBy: end}}}\n".into(),
    "id: expinv2\nlanguage: js\nrule: {kind: identifier}\nfix: {template: X, expandStart: {precedes: {kind: number, stopBy: end}}}\n".into(),
    "id: expinv3\nlanguage: python\nrule: {kind: identifier}\nfix: {template: '', expandEnd: {follows: {kind: integer, stopBy: end}}, expandStart: {precedes: {kind: integer, stopBy: end}}}\n".into(),
    "id: h9\nlanguage: js\nutils:\n  A: {inside: {matches: B, stopBy: end}}\n  B: {has: {matches: A, stopBy: end}}\nrule: {kind: identifier, matches: A}\n".into(),
    "id: dup\nlanguage: js\nrule: {pattern: foo($$$A)}\nrewriters:\n- {id: r, rule: {kind: identifier}, fix: x}\n- {id: r, rule: {kind: number}, fix: y}\n".into(),
    "id: of\nlanguage: js\nutils:\n  U: {nthChild: {position: 1, ofRule: {matches: U}}}\nrule: {matches: U}\n".into(),
    "id: ell\nlanguage: java\nrule: {kind: identifier, pattern: $$$}\n".into(),
    "id: ell2\nlanguage: js\nrule: {kind: identifier, pattern: $$$}\n".into(),
    "id: rwrel\nlanguage: js\nrule: {kind: string_fragment, pattern: $V}\ntransform: {T: {rewrite: {rewriters: [rw], source: $V, joinBy: \", \"}}}\nrewriters:\n- {id: rw, rule: {inside: {kind: string, stopBy: end}}, fix: \"($V)\"}\nfix: $T\n".into(),
    "id: rwrel2\nlanguage: js\nrule: {kind: identifier, pattern: $V}\ntransform: {T: {rewrite: {rewriters: [rw], source: $V}}}\nrewriters:\n- {id: rw, rule: {inside: {kind: program, stopBy: end}}, fix: \"($V)\"}\nfix: $T\n".into(),
    "id: rwrel3\nlanguage: js\nrule: {kind: call_expression, pattern: $V}\ntransform: {T: {rewrite: {rewriters: [rw], source: $V}}}\nrewriters:\n- {id: rw, rule: {precedes: {kind: identifier, stopBy: end}}, fix: \"<>\"}\nfix: $T\n".into(),
    "id: conv1\nlanguage: js\nrule: {kind: identifier, pattern: $V}\ntransform: {X: {convert: {source: $V, toCase: snakeCase}}}\nfix: $X\n".into(),
    "id: conv2\nlanguage: js\nrule: {kind: identifier, pattern: $V}\ntransform: {X: {convert: {source: $V, toCase: camelCase}}, Y: {convert: {source: $V, toCase: kebabCase, separatedBy: [caseChange]}}, Z: {convert: {source: $V, toCase: pascalCase, separatedBy: [underscore, caseChange]}}}\nfix: $X $Y $Z\n".into(),
    "id: conv3\nlanguage: js\nrule: {kind: identifier, pattern: $V}\ntransform: {X: {convert: {source: $V, toCase: capitalize}}, Y: {convert: {source: $V, toCase: upperCase}}, Z: {convert: {source: $V, toCase: lowerCase}}}\nfix: $X $Y $Z\n".into(),
    "id: rwself\nlanguage: js\nrule: {pattern: foo($A)}\ntransform: {B: {rewrite: {source: $A, rewriters: [rw]}}}\nrewriters:\n- {id: rw, rule: {kind: identifier, pattern: $X}, transform: {Y: {rewrite: {source: $X, rewriters: [rw]}}}, fix: $Y}\nfix: bar($B)\n".into(),
    "id: of2\nlanguage: js\nutils:\n  U: {kind: identifier, nthChild: {position: 1, ofRule: {matches: W}}}\n  W: {any: [{matches: U}]}\nrule: {kind: identifier, matches: U}\n".into(),
  ]
}

// ---------------------------------------------------------------------------------------
// yaml_load: correspondence of the structured stream with the Lean loader model
// ---------------------------------------------------------------------------------------

/// does the variant of this document depend on hash-map order? (several map entries at fault)
fn order_sensitive(facts: &Value) -> bool {
  // conservative: more than one entry in utils / constraints / transform of any core
  fn core_multi(c: &Value) -> bool {
    ["utils", "constraints", "transform"].iter().any(|k| c[*k].as_array().map(|a| a.len() > 1).unwrap_or(false))
  }
  if core_multi(&facts["core"]) {
    return true;
  }
  facts["rewriters"].as_array().map(|a| a.iter().any(|r| core_multi(&r["core"]))).unwrap_or(false)
}

pub fn yaml_load(ctx: &Ctx, rng: &mut Rng, o: &mut Out) {
  let pool = SrcPool::new(rng);
  let per_src = if ctx.thorough { 2400 } else { 120 };
  let wanted = [SupportLang::JavaScript, SupportLang::TypeScript, SupportLang::Python, SupportLang::Rust, SupportLang::Go, SupportLang::Tsx, SupportLang::Java, SupportLang::Css];
  let sources: Vec<_> = small_sources(rng, 2).into_iter().filter(|s| wanted.contains(&s.lang)).collect();
  let mut gens: Vec<GenDoc> = vec![];
  let mut jobs: Vec<Value> = vec![];
  let mut factss: Vec<Option<Value>> = vec![];
  for src in &sources {
    let grep = src.lang.ast_grep(&src.text);
    let root = grep.root();
    if root.dfs().count() > 600 {
      continue;
    }
    let m = harvest(&root, src.lang, rng);
    if m.kinds.is_empty() {
      continue;
    }
    let gk = global_kinds(src.lang, &m);
    let gdocs: Vec<String> = global_docs(src.lang, &m).iter().map(|d| d.to_string()).collect();
    for _ in 0..per_src {
      let g = gen_doc(&m, src.lang, rng);
      let text = g.doc.to_string();
      let globals: Vec<String> = if g.use_globals { gdocs.clone() } else { vec![] };
      let mut job = api_job("rule", &text, &pool, &globals);
      // the document's own source first: the generated rules were cut from it
      let mut srcs = vec![json!([lang_name(src.lang), src.text])];
      if let Some(a) = pool.api_sources(Some(src.lang)).as_array() {
        srcs.extend(a.iter().take(2).cloned());
      }
      job["src"] = json!(srcs);
      jobs.push(job);
      let facts = if g.yaml_err { None } else { doc_facts(&g.doc, g.lang, if g.use_globals { &gk } else { &[] }).ok() };
      if facts.is_none() && !g.yaml_err && !g.faults.contains(&"unknown_key") {
        // every other document of the generator is inside the structured class
        eprintln!("yaml_load: unexpected document outside the class: {}", g.doc);
      }
      factss.push(facts);
      gens.push(g);
    }
  }
  let answers = procpool::run_jobs(&jobs, procpool::nproc());
  let mut fails = 0usize;
  let mut tally: std::collections::BTreeMap<String, usize> = Default::default();
  let mut by_fault: std::collections::BTreeMap<String, usize> = Default::default();
  for ((g, facts), ans) in gens.iter().zip(factss.iter()).zip(answers.iter()) {
    let load = ans.detail["load"].as_str().unwrap_or("?").to_string();
    let v = ans.detail["v"].as_str().unwrap_or("").to_string();
    *tally.entry(format!("{}:{}", load, if load == "err" { v.clone() } else { String::new() })).or_default() += 1;
    for f in &g.faults {
      *by_fault.entry(format!("{f}/{load}")).or_default() += 1;
    }
    let text = g.doc.to_string();
    // correspondence: outcome class + variant of the load stage
    let cmpv = g.cmpv && g.faults.len() <= 1 && !facts.as_ref().map(order_sensitive).unwrap_or(false);
    let args = match facts {
      Some(f) => json!({"doc": f, "yaml_err": false, "cmpv": cmpv, "yaml": text, "faults": g.faults, "g": if g.use_globals { json!(global_docs(g.lang, &Material { kinds: vec![], snippets: vec![], fields: vec![], ranges: vec![], contexts: vec![] }).len()) } else { json!(0) }}),
      None => json!({"doc": null, "yaml_err": true, "cmpv": cmpv, "yaml": text, "faults": g.faults}),
    };
    let r = match load.as_str() {
      "ok" => json!({"c": "ok", "v": ""}),
      "err" => json!({"c": "err", "v": if cmpv { v.clone() } else { "*".to_string() }}),
      other => json!({"c": other, "v": ""}),
    };
    o.op("yaml_load", args, r);
    // oracle: no crash while loading or scanning
    if ans.class.crashed() {
      fails += 1;
      let fp = if load == "ok" { scan_fingerprint("rule", text.as_bytes()) } else { input_fingerprint("rule", text.as_bytes()) };
      let shown: String = text.chars().take(1500).collect();
      o.oracle("c11-no-crash-structured", false, json!({"fp": fp, "stream": "structured", "outcome": ans.class.name(), "detail": ans.detail, "faults": g.faults, "doc": shown}));
    }
  }
  o.oracle("c11-no-crash-structured", true, json!({"cases": answers.len(), "failures": fails, "tally": tally, "faults": by_fault}));
}

pub fn exec(op: &str, a: &Value) -> Option<Value> {
  if op == "fix_apply" {
    let text = a["yaml"].as_str()?.to_string();
    let mut rng = Rng::new(1);
    let pool = SrcPool::new(&mut rng);
    let mut job = api_job("rule", &text, &pool, &[]);
    job["src"] = json!([]);
    job["fixinfo"] = a["src"].clone();
    let ans = procpool::run_jobs(&[job], 1).pop()?;
    return Some(json!({"out": ans.detail["fi"]["repl"]}));
  }
  if op != "yaml_load" && op != "yaml_load_prefix" {
    return None;
  }
  // replay: load the recorded YAML text in an isolated child
  let text = a["yaml"].as_str()?.to_string();
  let mut rng = Rng::new(1);
  let pool = SrcPool::new(&mut rng);
  let job = api_job("rule", &text, &pool, &[]);
  let ans = procpool::run_jobs(&[job], 1).pop()?;
  let load = ans.detail["load"].as_str().unwrap_or("?").to_string();
  let cmpv = a["cmpv"].as_bool().unwrap_or(true);
  let v = ans.detail["v"].as_str().unwrap_or("").to_string();
  Some(match (load.as_str(), &ans.class) {
    ("ok", Class::Ok) => json!({"c": "ok", "v": ""}),
    ("err", _) => json!({"c": "err", "v": if cmpv { v } else { "*".into() }}),
    (_, c) => json!({"c": c.name(), "v": ""}),
  })
}
