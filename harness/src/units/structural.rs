//! slice "structural" (C07 / C02 / C20): the structural replacer and the patterns made from a tree.
//!  * `structural_replace`  `node.replace(&pattern, &replacement_root)` (`impl Replacer for Root<D>`,
//!                          replacer/structural.rs) — the inserted text vs the model's `genReplacement`
//!  * `pattern_contextual`  `Pattern::contextual(context, selector, lang)`: the `PatternNode` dump, the
//!                          kinds the pattern can match (the observable of the private `root_kind`) and
//!                          the error kind vs the model's `contextualPattern`
//!  * `pattern_try_new`     `Pattern::try_new(text, lang)` vs the model's `patternTryNew`
//! Oracles on the implementation alone: `structural-substitutes` (the inserted text = the replacement
//! text with the variable spellings replaced by the captured texts, computed on the TEXT by the
//! harness), `contextual-first-of-kind` (the pattern is the pattern of the first node of the selector
//! kind in document order).
use super::matching::{env_json, register_tree, Hole};
use super::Ctx;
use crate::corpus::{self, Source};
use crate::treedump::{self, Ids};
use crate::util::*;
use ast_grep_core::matcher::{MatcherExt, PatternNode};
use ast_grep_core::meta_var::MetaVariable;
use ast_grep_core::replacer::Replacer;
use ast_grep_core::{Language, Matcher, Node, Pattern, PatternError, StrDoc};
use ast_grep_language::SupportLang;
use serde_json::{json, Value};

type N<'r> = Node<'r, StrDoc<SupportLang>>;

fn has_error(n: &N) -> bool {
  n.dfs().any(|d| d.is_error() || d.get_ts_node().is_missing())
}

/// sources with multi-byte text in identifiers, strings and comments (captured texts and the
/// fragments between the variables are then multi-byte)
fn extra_sources() -> Vec<Source> {
  let mk = |lang, name: &str, text: &str| Source { lang, name: name.to_string(), text: text.to_string() };
  vec![
    mk(SupportLang::JavaScript, "mb/strings.js", "let grüße = \"héllo → 世界\";\nprint(grüße, \"ß\", [1, 2, 3]); // déjà vu\nfoo();\nbar(ä, ö);\nif (x) { y(\"€\"); }\n"),
    mk(SupportLang::Python, "mb/strings.py", "grüße = \"héllo → 世界\"\nprint(grüße, \"ß\", [1, 2, 3])  # déjà vu\nfoo()\nbar(ä, ö)\nif x:\n    y(\"€\")\n"),
    mk(SupportLang::Rust, "mb/strings.rs", "fn main() {\n    let s = \"héllo → 世界\";\n    print(s, \"ß\", [1, 2, 3]); // déjà vu\n    foo();\n    bar(a, b);\n}\n"),
    mk(SupportLang::Go, "mb/strings.go", "package p\n\nfunc m() {\n\ts := \"héllo → 世界\"\n\tprint(s, \"ß\", 3) // déjà vu\n\tfoo()\n\tbar(a, b)\n}\n"),
    mk(SupportLang::TypeScript, "mb/strings.ts", "const grüße: string = \"héllo → 世界\";\nprint(grüße, \"ß\", [1, 2, 3]);\nfoo();\n"),
    mk(SupportLang::Ruby, "mb/strings.rb", "s = \"héllo → 世界\"\nprint(s, \"ß\", [1, 2, 3]) # déjà vu\nfoo()\nbar(a, b)\n"),
    mk(SupportLang::Java, "mb/Strings.java", "class A { void m() { String s = \"héllo → 世界\"; print(s, \"ß\", 3); foo(); bar(a, b); } }\n"),
    mk(SupportLang::C, "mb/strings.c", "void m() { char *s = \"héllo → 世界\"; print(s, \"ß\", 3); foo(); bar(a, b); }\n"),
  ]
}

/// pattern text: the node's text with every hole range replaced by `sigil` + name
/// (cf. `holed_text` of matching.rs; here the sigil is a parameter)
fn holed_text(n: &N, holes: &[(usize, usize, String)], src: &str) -> String {
  let r = n.range();
  let mut hs: Vec<&(usize, usize, String)> = holes.iter().collect();
  hs.sort_by_key(|h| h.0);
  let mut out = String::new();
  let mut pos = r.start;
  for h in hs {
    out.push_str(&src[pos..h.0]);
    out.push_str(&h.2);
    pos = h.1;
  }
  out.push_str(&src[pos..r.end]);
  out
}

/// holes of a pattern cut from `n` (cf. `choose_holes` of matching.rs): up to three disjoint named
/// descendants, and (one time in two) a trailing run of siblings as `$$$W`
fn choose_holes(n: &N, rng: &mut Rng, ids: &Ids) -> Vec<Hole> {
  let mut holes: Vec<Hole> = vec![];
  let descendants: Vec<N> = n.dfs().skip(1).filter(|d| d.is_named() && d.range().end > d.range().start).collect();
  if descendants.is_empty() {
    return holes;
  }
  let want = 1 + rng.below(3);
  let mut tries = 0;
  while holes.len() < want && tries < 12 {
    tries += 1;
    let d = rng.pick(&descendants);
    let r = d.range();
    if r == n.range() || holes.iter().any(|h| !(r.end <= h.start || r.start >= h.end)) {
      continue;
    }
    holes.push(Hole { start: r.start, end: r.end, name: format!("V{}", holes.len()), run: None });
  }
  if rng.chance(1, 2) {
    let parents: Vec<N> = n.dfs().filter(|p| p.children().len() >= 2).collect();
    if !parents.is_empty() {
      let p = rng.pick(&parents);
      let kids: Vec<N> = p.children().collect();
      let mut j = kids.len();
      while j > 0 && !kids[j - 1].is_named() {
        j -= 1;
      }
      if j > 0 {
        let j = j - 1;
        let named_idx: Vec<usize> = (0..=j).filter(|i| kids[*i].is_named()).collect();
        let i = *rng.pick(&named_idx);
        let (s, e) = (kids[i].range().start, kids[j].range().end);
        if e > s && !holes.iter().any(|h| !(e <= h.start || s >= h.end)) && !(s == n.range().start && e == n.range().end) {
          holes.push(Hole { start: s, end: e, name: "W".to_string(), run: Some((ids.of(p), i, j)) });
        }
      }
    }
  }
  holes
}

fn empty_kinds(lang: SupportLang) -> Vec<u16> {
  let tsl = lang.get_ts_language();
  (0..tsl.node_kind_count() as u16).filter(|k| tsl.node_kind_for_id(*k).map(|s| s.is_empty()).unwrap_or(false)).collect()
}

fn kinds_json(p: &Pattern<SupportLang>) -> Value {
  match p.potential_kinds() {
    None => Value::Null,
    Some(set) => json!(set.iter().collect::<Vec<usize>>()),
  }
}

fn perr(e: &PatternError) -> &'static str {
  match e {
    PatternError::TSParse(_) => "TSParse",
    PatternError::NoContent(_) => "NoContent",
    PatternError::MultipleNode(_) => "MultipleNode",
    PatternError::InvalidKind(_) => "InvalidKind",
    PatternError::NoSelectorInContext { .. } => "NoSelectorInContext",
  }
}

fn pres(r: &Result<Pattern<SupportLang>, PatternError>) -> Value {
  match r {
    Ok(p) => json!({"ok": treedump::dump_pattern(&p.node), "kinds": kinds_json(p)}),
    Err(e) => json!({"err": perr(e)}),
  }
}

/// one variable occurrence spliced into a replacement text
struct Occ {
  start: usize, // byte range of the spelling in the replacement text
  end: usize,
  multi: bool,
  name: String,
}

/// the text a variable stands for, read through the public API of the environment
fn captured(nm: &ast_grep_core::NodeMatch<StrDoc<SupportLang>>, doc: &str, occ: &Occ) -> Option<String> {
  let env = nm.get_env();
  if occ.multi {
    let ns = env.get_multiple_matches(&occ.name);
    if ns.is_empty() {
      // bound to no node at all (an ellipsis that matched nothing) or not bound
      if env.get_matched_variables().any(|v| v == MetaVariable::MultiCapture(occ.name.clone())) {
        Some(String::new())
      } else {
        None
      }
    } else {
      Some(doc[ns[0].range().start..ns[ns.len() - 1].range().end].to_string())
    }
  } else if let Some(n) = env.get_match(&occ.name) {
    Some(n.text().to_string())
  } else {
    env.get_transformed(&occ.name).map(|b| String::from_utf8_lossy(b).to_string())
  }
}

pub fn structural(ctx: &Ctx, rng: &mut Rng, o: &mut Out) {
  let mut sources = corpus::load();
  sources.extend(extra_sources());
  let per_src = if ctx.thorough { 400 } else { 20 };
  let ctx_per_src = if ctx.thorough { 300 } else { 15 };
  let mut rep_cases = 0usize;
  let mut oracle_cases = 0usize;
  let mut ctx_cases = 0usize;
  let mut ctx_oracle = 0usize;
  let mut rcount = 0usize;
  let mut eq_cases = 0usize;
  let mut langs: std::collections::BTreeSet<String> = Default::default();
  for (si, src) in sources.iter().enumerate() {
    if src.text.len() > 20_000 {
      continue;
    }
    let lang = src.lang;
    let expando = lang.expando_char();
    let grep = lang.ast_grep(&src.text);
    let root = grep.root();
    let tid = format!("SD{si}");
    let ids = register_tree(o, &tid, src, &root);
    let nodes: Vec<N> = root
      .dfs()
      .filter(|n| n.is_named() && n.range().len() > 0 && n.range().len() <= 300 && n.children().len() > 0 && !has_error(n))
      .collect();
    if nodes.is_empty() {
      continue;
    }
    langs.insert(lang.to_string());
    let empties = empty_kinds(lang);
    // ---------------------------------------------------------------- (a) the structural replacer
    let mut done = 0usize;
    let mut tries = 0usize;
    while done < per_src && tries < per_src * 6 {
      tries += 1;
      let n = rng.pick(&nodes).clone();
      let holes = choose_holes(&n, rng, &ids);
      let spelled: Vec<(usize, usize, String)> = holes
        .iter()
        .map(|h| (h.start, h.end, format!("{}{}", if h.run.is_some() { "$$$" } else { "$" }, h.name)))
        .collect();
      let ptext = holed_text(&n, &spelled, &src.text);
      let Ok(pat) = Pattern::try_new(&ptext, lang) else { continue };
      // `Node::replace` = `find_node` from the node, then `make_edit`
      let Some(mut nm) = pat.find_node(n.clone()) else { continue };
      // a transformed variable (inserted as the rule's `transform` section does, without a source
      // variable: the string is stored as it is)
      let tval = *rng.pick(&["", "tränsformed", "x\n  y"]);
      let with_t = rng.chance(1, 3);
      if with_t {
        nm.get_env_mut().insert_transformation(&MetaVariable::Multiple, "T1", tval.as_bytes().to_vec());
      }
      // the replacement: other code of the same file with variable spellings spliced in
      let m = rng.pick(&nodes).clone();
      let spots: Vec<N> = m.dfs().filter(|d| d.is_named() && d.range().len() > 0 && d.node_id() != m.node_id()).collect();
      let sigil_expando = expando != '$' && rng.chance(1, 2);
      let sig = if sigil_expando { expando.to_string() } else { "$".to_string() };
      let mut names: Vec<(bool, String)> = holes.iter().map(|h| (h.run.is_some(), h.name.clone())).collect();
      names.push((false, "U9".into())); // unbound
      names.push((true, "UNB".into())); // unbound ellipsis
      names.push((true, "W".into()));
      names.push((false, "V0".into()));
      names.push((false, "T1".into()));
      let mut chosen: Vec<(usize, usize, bool, String)> = vec![];
      let want = 1 + rng.below(4);
      let mut t2 = 0;
      while chosen.len() < want && t2 < 12 && !spots.is_empty() {
        t2 += 1;
        let d = rng.pick(&spots);
        let r = d.range();
        if chosen.iter().any(|c| !(r.end <= c.0 || r.start >= c.1)) {
          continue;
        }
        // two times in three a variable of the pattern
        let bound: Vec<(bool, String)> = holes.iter().map(|h| (h.run.is_some(), h.name.clone())).collect();
        let (multi, name) = if !bound.is_empty() && rng.chance(2, 3) { rng.pick(&bound).clone() } else { rng.pick(&names).clone() };
        chosen.push((r.start, r.end, multi, name));
      }
      chosen.sort_by_key(|c| c.0);
      let mut rtext = String::new();
      let mut occs: Vec<Occ> = vec![];
      let mut pos = m.range().start;
      for (s, e, multi, name) in &chosen {
        rtext.push_str(&src.text[pos..*s]);
        let start = rtext.len();
        let sp = if *multi { format!("{sig}{sig}{sig}{name}") } else { format!("{sig}{name}") };
        rtext.push_str(&sp);
        occs.push(Occ { start, end: rtext.len(), multi: *multi, name: name.clone() });
        pos = *e;
      }
      rtext.push_str(&src.text[pos..m.range().end]);
      // sometimes text around the root's range: leading / trailing blanks
      if rng.chance(1, 6) {
        let lead = *rng.pick(&["  ", "\n", ""]);
        rtext = format!("{lead}{rtext}{}", rng.pick(&[" ", "\n\n", ""]));
        for oc in occs.iter_mut() {
          oc.start += lead.len();
          oc.end += lead.len();
        }
      }
      let rroot = lang.ast_grep(&rtext);
      let rid = format!("SR{rcount}");
      rcount += 1;
      let rsrc = Source { lang, name: format!("{}#replacement", src.name), text: rtext.clone() };
      let _rids = register_tree(o, &rid, &rsrc, &rroot.root());
      let real = guard(|| match n.replace(&pat, &rroot.inner) {
        Some(e) => json!({"text": String::from_utf8_lossy(&e.inserted_text)}),
        None => json!("no-match"),
      });
      // with the transformed variable: the same replacer on the match that carries it
      let real = if with_t {
        guard(|| json!({"text": String::from_utf8_lossy(&Replacer::generate_replacement(&rroot.inner, &nm))}))
      } else {
        real
      };
      let mut env = env_json(&nm, &ids);
      if with_t {
        let got = nm.get_env().get_transformed("T1").map(|b| String::from_utf8_lossy(b).to_string());
        env["x"] = json!({"T1": got});
      }
      o.op("structural_replace", json!({"t": tid, "r": rid, "mc": expando.to_string(), "env": env}), real.clone());
      done += 1;
      rep_cases += 1;
      // ------------------------------------------------------------ oracle: reference substitution
      // guard (about the input alone): the replacement is well-formed code of the language and every
      // spliced spelling is one node of its tree
      let rr = rroot.root();
      let well_formed = !has_error(&rr);
      let one_node = occs.iter().all(|oc| rr.dfs().any(|d| d.range().start == oc.start && d.range().end == oc.end));
      if well_formed && one_node {
        oracle_cases += 1;
        // bound → the captured text; not bound → the template replacer's reading (nothing) or the
        // spelling kept: the property speaks about captured variables only, both are accepted
        let rend = rr.range().end;
        let build = |unbound_keeps: bool| -> String {
          let mut out = String::new();
          let mut p = 0usize;
          for oc in &occs {
            out.push_str(&rtext[p..oc.start]);
            match captured(&nm, &src.text, oc) {
              Some(t) => out.push_str(&t),
              None => {
                if unbound_keeps {
                  out.push_str(&rtext[oc.start..oc.end]);
                }
              }
            }
            p = oc.end;
          }
          out.push_str(&rtext[p..]);
          out
        };
        // structural = template (oracle `structural-eq-template`): `$` languages, every spelling a node
        // without named children, every variable bound to a non-empty single-line text, a one-line
        // replacement — then the template replacer (`impl Replacer for str`) gives the same text
        let caps: Vec<Option<String>> = occs.iter().map(|oc| captured(&nm, &src.text, oc)).collect();
        let leafs = occs.iter().all(|oc| rr.dfs().any(|d| d.range().start == oc.start && d.range().end == oc.end && d.is_named_leaf()));
        if expando == '$' && leafs && !rtext.contains('\n') && !with_t && caps.iter().all(|c| matches!(c, Some(t) if !t.is_empty() && !t.contains('\n'))) {
          *(&mut eq_cases) += 1;
          let tmpl = guard(|| match n.replace(&pat, rtext.as_str()) {
            Some(e) => json!({"text": String::from_utf8_lossy(&e.inserted_text)}),
            None => json!("no-match"),
          });
          let t = |v: &Value| v["text"].as_str().map(|s| s.trim().to_string());
          if t(&tmpl) != t(&real) {
            observe(o, "structural-eq-template",
              json!({"fp": "structural-eq-template: bound single-line variables, the two replacers differ", "lang": lang.to_string(),
                     "pattern": ptext, "matched": n.text(), "replacement": rtext, "structural": real, "template": tmpl}),
            );
          }
        }
        let (a, b) = (build(false), build(true));
        let got = real["text"].as_str().map(|s| s.to_string());
        // text behind the end of the root node (trailing blanks) is not part of the tree
        let trim = |s: &str| s.trim_end().to_string();
        let ok = got.as_ref().map(|g| trim(g) == trim(&a) || trim(g) == trim(&b)).unwrap_or(false);
        let _ = rend;
        if !ok {
          // fingerprint from the input class (one class per case, by priority)
          let mut class: Vec<String> = vec![];
          let mut detail_kind = String::new();
          let mut c_expando = false;
          let mut c_children = false;
          let mut c_empty = false;
          for oc in &occs {
            let cap = captured(&nm, &src.text, oc);
            if oc.multi && cap.as_deref() == Some("") {
              c_empty = true;
            }
            if cap.is_some() && !sigil_expando && expando != '$' {
              c_expando = true;
            }
            if cap.is_some() {
              let same: Vec<N> = rr.dfs().filter(|d| d.range().start == oc.start && d.range().end == oc.end).collect();
              if !same.is_empty() && same.iter().all(|d| !d.is_named_leaf()) {
                c_children = true;
                detail_kind = same[same.len() - 1].kind().to_string();
              }
            }
          }
          if c_expando {
            class.push("`$` spelling in a language with an expando char".into());
          } else if c_children {
            class.push("the variable's node has named children".into());
          } else if c_empty {
            class.push("an ellipsis variable bound to no node".into());
          } else {
            class.push(format!("other ({lang})"));
          }
          let _ = &detail_kind;
          observe(o, "structural-substitutes",
            json!({"fp": format!("structural-substitutes: {}", class.join(" + ")), "lang": lang.to_string(), "file": src.name,
                   "pattern": ptext, "matched": n.text(), "replacement": rtext, "got": got, "want": a, "node_kind": detail_kind}),
          );
        }
      }
    }
    // ---------------------------------------------------------------- (b) contextual patterns
    let tsl = lang.get_ts_language();
    for k in 0..ctx_per_src {
      let n = rng.pick(&nodes).clone();
      // the context: the node's text, two times in three with holes
      let holes = if k % 3 == 0 { vec![] } else { choose_holes(&n, rng, &ids) };
      let spelled: Vec<(usize, usize, String)> = holes
        .iter()
        .map(|h| (h.start, h.end, format!("{}{}", if h.run.is_some() { "$$$" } else { "$" }, h.name)))
        .collect();
      let ctext = holed_text(&n, &spelled, &src.text);
      let processed = lang.pre_process_pattern(&ctext).to_string();
      let cgrep = lang.ast_grep(&processed);
      let croot = cgrep.root();
      let cid = format!("SC{si}_{k}");
      let csrc = Source { lang, name: format!("{}#context", src.name), text: processed.clone() };
      register_tree(o, &cid, &csrc, &croot);
      // selectors: kinds of nodes of the context (any depth), the kind of the node the text was cut
      // from, a kind of the language that is not in the context, an unnamed token, a name that is
      // no kind at all
      let inside: Vec<N> = croot.dfs().filter(|d| d.is_named()).collect();
      let mut sels: Vec<String> = vec![n.kind().to_string()];
      for _ in 0..3 {
        if !inside.is_empty() {
          sels.push(rng.pick(&inside).kind().to_string());
        }
      }
      sels.push(rng.pick(&nodes).kind().to_string());
      if k % 5 == 0 {
        sels.push("no_such_kind".to_string());
        sels.push("(".to_string());
        sels.push("ERROR".to_string());
      }
      sels.dedup();
      for sel in sels {
        let kid = tsl.id_for_node_kind(&sel, true);
        let r = Pattern::contextual(&ctext, &sel, lang);
        o.op("pattern_contextual", json!({"t": cid, "mc": expando.to_string(), "kind": kid, "selector": sel}), pres(&r));
        ctx_cases += 1;
        // oracle: the pattern is the one of the FIRST node of that kind in document order
        // (reference: the list of all nodes in document order, through `dfs()` of the public API,
        // converted by the public `From<Node> for PatternNode`); no node of that kind ⇔ error
        let first = if kid == 0 { None } else { croot.dfs().find(|d| d.kind_id() == kid) };
        ctx_oracle += 1;
        let ok = match (&r, &first) {
          (Ok(p), Some(f)) => treedump::dump_pattern(&p.node) == treedump::dump_pattern(&PatternNode::from(f.clone())),
          (Err(PatternError::NoSelectorInContext { .. }), None) => kid != 0,
          (Err(PatternError::InvalidKind(_)), _) => kid == 0,
          _ => false,
        };
        if !ok {
          o.oracle(
            "contextual-first-of-kind",
            false,
            json!({"fp": format!("contextual-first-of-kind: selector present={} valid={}", first.is_some(), kid != 0), "lang": lang.to_string(),
                   "context": ctext, "selector": sel, "got": pres(&r)}),
          );
        }
      }
      // the plain pattern of the same text
      let t = Pattern::try_new(&ctext, lang);
      o.op("pattern_try_new", json!({"t": cid, "mc": expando.to_string(), "empty": empties}), pres(&t));
      ctx_cases += 1;
      // selector = the kind of the plain pattern's node, when that node is the first of its kind:
      // the contextual pattern is the plain one
      if let Ok(tp) = &t {
        let kid = match &tp.node {
          PatternNode::Terminal { kind_id, .. } | PatternNode::Internal { kind_id, .. } => Some(*kind_id),
          PatternNode::MetaVar { .. } => None,
        };
        if let Some(kid) = kid {
          if let Some(name) = tsl.node_kind_for_id(kid) {
            if tsl.id_for_node_kind(&name, true) == kid {
              // the plain pattern's node has this kind; when it is the only node of that kind the
              // selector denotes it
              if croot.dfs().filter(|d| d.kind_id() == kid).count() == 1 {
                ctx_oracle += 1;
                let same = match Pattern::contextual(&ctext, &name, lang) {
                  Ok(cp) => treedump::dump_pattern(&cp.node) == treedump::dump_pattern(&tp.node),
                  Err(_) => false,
                };
                if !same {
                  o.oracle(
                    "contextual-first-of-kind",
                    false,
                    json!({"fp": "contextual-selector-self: the only node of the selector kind is the plain pattern's node, the patterns differ",
                           "lang": lang.to_string(), "context": ctext, "selector": name}),
                  );
                }
              }
            }
          }
        }
      }
    }
  }
  scripted(o, &mut rep_cases, &mut oracle_cases);
  o.oracle("structural-substitutes", true, json!({"cases": oracle_cases, "replacements": rep_cases, "languages": langs.len()}));
  o.oracle("structural-eq-template", true, json!({"cases": eq_cases}));
  o.oracle("contextual-first-of-kind", true, json!({"cases": ctx_oracle, "ops": ctx_cases}));
}

/// scripted cases in ten languages: an ellipsis that matched nothing, repeated variables, multi-byte
/// text, variables that are not bound, and the replay of the Lean witnesses
/// (`structural_missing_truncates_counterexample`, `empty_ellipsis_kept_counterexample`).
/// `want` = the reference reading (every spelling of a bound variable replaced by its captured text);
/// `None` = no statement (variables that are not bound: reported by the op only)
pub fn scripted(o: &mut Out, rep_cases: &mut usize, oracle_cases: &mut usize) {
  let mut node_cases = 0usize;
  use SupportLang::*;
  let cases: Vec<(SupportLang, &str, &str, &str, Option<&str>, &str)> = vec![
    (JavaScript, "foo()", "foo($$$ARGS)", "bar($$$ARGS)", Some("bar()"), "an ellipsis variable bound to no node"),
    (JavaScript, "foo(1, 2)", "foo($$$ARGS)", "bar($$$ARGS)", Some("bar(1, 2)"), "scripted"),
    // every capturing spelling: `$A`, `$$A` (any node, named or not), `$$$A`
    (JavaScript, "foo(1)", "foo($$A)", "bar($$A)", Some("bar(1)"), "scripted"),
    (JavaScript, "foo(1, 2)", "foo($$A, $B)", "bar($B, $$A, $$A)", Some("bar(2, 1, 1)"), "scripted"),
    (Python, "foo(1)", "foo($$A)", "bar(µµA)", Some("bar(1)"), "scripted"),
    (Rust, "fn m() { foo(1); }", "foo($$A)", "bar(µµA)", Some("bar(1)"), "scripted"),
    (JavaScript, "a = a", "$X = $X", "$X + $X", Some("a + a"), "scripted"),
    (JavaScript, "print(\"héllo → 世界\")", "print($A)", "log(\"ß\", $A, $A)", Some("log(\"ß\", \"héllo → 世界\", \"héllo → 世界\")"), "scripted"),
    (JavaScript, "f(1, 2)", "f($A, $B)", "if ($A { $B }", Some("if (1 { 2 }"), "a MISSING token without a next sibling ends the substitution"),
    (JavaScript, "f(1, 2)", "f($A, $B)", "function g() { if ($A) }\n$B;", Some("function g() { if (1) }\n2;"), "a MISSING token without a next sibling ends the substitution"),
    (JavaScript, "f(1, 2)", "f($A, $B)", "{ while ($A) }; $B", Some("{ while (1) }; 2"), "a MISSING token without a next sibling ends the substitution"),
    (JavaScript, "f(1, 2)", "f($A, $B)", "[$A, !]; $B", Some("[1, !]; 2"), "a MISSING token without a next sibling ends the substitution"),
    (JavaScript, "f(1, 2)", "f($A, $B)", "g($A, ()); $B", Some("g(1, ()); 2"), "a MISSING token without a next sibling ends the substitution"),
    (JavaScript, "f(1, 2)", "f($A, $B)", "class { m() { $A } }; $B", Some("class { m() { 1 } }; 2"), "a MISSING token without a next sibling ends the substitution"),
    (Python, "f(1, 2)", "f($A, $B)", "g(µA, ())[]\nµB", Some("g(1, ())[]\n2"), "a MISSING token without a next sibling ends the substitution"),
    (Rust, "fn m() { f(1, 2); }", "f($A, $B)", "fn g() { let = µA; µB }", Some("fn g() { let = 1; 2 }"), "a MISSING token without a next sibling ends the substitution"),
    (Go, "package p\nfunc m() { f(1, 2) }\n", "f($A, $B)", "package p\nfunc g() { if µA { } else ; µB }\n", Some("package p\nfunc g() { if 1 { } else ; 2 }\n"), "a MISSING token without a next sibling ends the substitution"),
    (JavaScript, "f(1)", "f($A)", "g($A, $B, $$$C)", None, "scripted"),
    (TypeScript, "foo()", "foo($$$ARGS)", "bar($$$ARGS)", Some("bar()"), "an ellipsis variable bound to no node"),
    (Tsx, "foo(1)", "foo($$$ARGS)", "<Bar x={$$$ARGS} />", Some("<Bar x={1} />"), "scripted"),
    (Python, "foo()", "foo($$$ARGS)", "bar(µµµARGS)", Some("bar()"), "an ellipsis variable bound to no node"),
    (Python, "foo(1, x)", "foo($$$ARGS)", "bar(µµµARGS)", Some("bar(1, x)"), "scripted"),
    (Python, "foo(ä)", "foo($A)", "bar(µA, µA)", Some("bar(ä, ä)"), "scripted"),
    (Rust, "fn m() { foo(); }", "foo($$$ARGS)", "bar(µµµARGS)", Some("bar()"), "an ellipsis variable bound to no node"),
    (Rust, "fn m() { foo(1, b); }", "foo($$$ARGS)", "bar(µµµARGS)", Some("bar(1, b)"), "scripted"),
    (Go, "package p\nfunc m() { foo(1, b) }\n", "foo($$$ARGS)", "package p\nfunc n() { bar(µµµARGS) }\n", Some("package p\nfunc n() { bar(1, b) }\n"), "scripted"),
    (Java, "class A { void m() { foo(); } }", "foo($$$ARGS)", "bar($$$ARGS)", Some("bar()"), "an ellipsis variable bound to no node"),
    (Java, "class A { void m() { foo(a, 2); } }", "foo($$$ARGS)", "bar($$$ARGS)", Some("bar(a, 2)"), "scripted"),
    (C, "void m() { foo(a, 2); }", "foo($A, $B)", "bar($B, $A)", Some("bar(2, a)"), "scripted"),
    (Cpp, "void m() { foo(a, 2); }", "foo($A, $B)", "bar($B, $A)", Some("bar(2, a)"), "scripted"),
    (CSharp, "class A { void M() { foo(a, 2); } }", "foo($A, $B)", "bar($B, $A)", Some("bar(2, a)"), "scripted"),
    (Ruby, "foo(1, b)", "foo($$$ARGS)", "bar(µµµARGS)", Some("bar(1, b)"), "scripted"),
    (Kotlin, "fun m() { foo(1, b) }", "foo($$$ARGS)", "bar(µµµARGS)", Some("bar(1, b)"), "scripted"),
    (Lua, "foo(1, b)", "foo($$$ARGS)", "bar($$$ARGS)", Some("bar(1, b)"), "scripted"),
    (Lua, "foo()", "foo($$$ARGS)", "bar($$$ARGS)", Some("bar()"), "an ellipsis variable bound to no node"),
  ];
  for (i, (lang, doc_text, ptext, rtext, want, class)) in cases.into_iter().enumerate() {
    let expando = lang.expando_char();
    let doc = lang.ast_grep(doc_text);
    let root = doc.root();
    let tid = format!("SS{i}");
    let dsrc = Source { lang, name: format!("scripted/{i}"), text: doc_text.to_string() };
    let ids = register_tree(o, &tid, &dsrc, &root);
    let Ok(pat) = Pattern::try_new(ptext, lang) else {
      observe(o, "structural-substitutes", json!({"fp": format!("structural-substitutes: scripted pattern {i} does not build")}));
      continue;
    };
    let Some(nm) = pat.find_node(root.clone()) else {
      observe(o, "structural-substitutes", json!({"fp": format!("structural-substitutes: scripted pattern {i} does not match"), "pattern": ptext, "doc": doc_text}));
      continue;
    };
    // the table spells variables with `$`; a replacement tree is not pre-processed, so the
    // language's expando char is written here
    let rtext: &str = &rtext.replace('$', &expando.to_string());
    let rroot = lang.ast_grep(rtext);
    let rid = format!("SSR{i}");
    let rsrc = Source { lang, name: format!("scripted/{i}#replacement"), text: rtext.to_string() };
    register_tree(o, &rid, &rsrc, &rroot.root());
    let real = guard(|| match root.replace(&pat, &rroot.inner) {
      Some(e) => json!({"text": String::from_utf8_lossy(&e.inserted_text)}),
      None => json!("no-match"),
    });
    o.op("structural_replace", json!({"t": tid, "r": rid, "mc": expando.to_string(), "env": env_json(&nm, &ids)}), real.clone());
    // a single NODE of another document as the replacement (`impl Replacer for Node`): the text
    // inserted is that node's own text, whatever the edited document holds at its offsets
    for rn in rroot.root().dfs().filter(|x| x.is_named() && x.range().len() > 0).take(3) {
      let want = rn.text().to_string();
      let got = guard(|| match root.replace(&pat, rn.clone()) {
        Some(e) => json!(String::from_utf8_lossy(&e.inserted_text)),
        None => json!("no-match"),
      });
      node_cases += 1;
      if got != json!(want) {
        o.oracle("node-replacer", false, json!({"fp": "a node of another document as replacement: the inserted text is not that node's text",
          "lang": lang.to_string(), "pattern": ptext, "matched": doc_text, "replacement_node": want, "got": got}));
      }
    }
    *rep_cases += 1;
    if let Some(want) = want {
      *oracle_cases += 1;
      if class == "scripted" && real["text"].as_str().map(|g| g.trim_end() == want.trim_end()) != Some(true) {
        // a BOUND variable written in a capturing spelling is replaced by what it captured: that much is
        // the common ground of every replacer (C07, C20) and is judged
        o.oracle("structural-bound-variable", false, json!({"fp": "structural replacer: a bound variable in a capturing spelling is not replaced by the captured text",
          "lang": lang.to_string(), "pattern": ptext, "matched": doc_text, "replacement": rtext, "got": real, "want": want}));
      } else if real["text"].as_str().map(|g| g.trim_end() == want.trim_end()) != Some(true) {
        observe(o, "structural-substitutes",
          json!({"fp": format!("structural-substitutes: {class}"), "lang": lang.to_string(), "pattern": ptext, "matched": doc_text,
                 "replacement": rtext, "got": real, "want": want}),
        );
      }
    }
  }
  o.oracle("node-replacer", true, json!({"cases": node_cases}));
}

/// What the structural replacer (a parsed tree as replacement, a library-only entry point) does with
/// unbound variables, empty `$$$` captures, `$` spellings in expando languages and variables whose
/// node has named children is no clause of a property (C07 speaks about fix TEMPLATES): measured, not
/// judged. The model transcribes the code as it is (`empty_ellipsis_kept_counterexample`,
/// `structural_ne_template_*_counterexample`) and the op `structural_replace` ties it to the code.
fn observe(o: &mut Out, name: &str, detail: Value) {
  o.op(&format!("info:{name}"), json!({"fp": detail["fp"]}), Value::Null);
}

pub fn exec(_op: &str, _a: &Value) -> Option<Value> {
  None
}
