//! C01 units: search completeness.
//!  * `find_all`      `Node::find_all(RuleCore)` vs the model's kind-filtered loop
//!  * `combined`      `CombinedScan::scan` per-rule results vs the model's dispatch
//!  * `fixed_string`  `Pattern::fixed_string()` vs the model (the CLI's literal file prefilter)
//! oracles on the implementation: find_all = combined per rule = per-node match in document order;
//! non-reentrant visit = outermost matches; CLI `run`/`scan` = library search.
use super::matching::{env_json, register_tree, STRICT};
use super::rules::{fixed_specs, gen_core, harvest, small_sources};
use super::Ctx;
use crate::ruledump::{dump_core, Regexes};
use crate::treedump::{self, Ids};
use crate::util::*;
use ast_grep_config::{from_yaml_string, CombinedScan, GlobalRules, RuleConfig};
use ast_grep_core::matcher::MatcherExt;
use ast_grep_core::traversal::Visitor;
use ast_grep_core::{Language, Matcher, Node, Pattern, StrDoc};
use ast_grep_language::SupportLang;
use serde_json::{json, Value};
use std::process::{Command, Stdio};

type N<'r> = Node<'r, StrDoc<SupportLang>>;

fn regex_table(rx: &Regexes, all: &[N], ids: &Ids) -> Value {
  let mut tab = serde_json::Map::new();
  for (i, s) in rx.0.iter().enumerate() {
    let re = regex::Regex::new(s).expect("regex compiled by the loader");
    let hits: Vec<usize> = all.iter().filter(|n| re.is_match(&n.text())).map(|n| ids.of(n)).collect();
    tab.insert(i.to_string(), json!(hits));
  }
  Value::Object(tab)
}

fn lang_name(l: SupportLang) -> String {
  format!("{l}")
}

fn load_config(spec: &Value, id: &str, lang: SupportLang, with_fix: bool) -> Option<RuleConfig<SupportLang>> {
  let mut doc = spec.clone();
  doc["id"] = json!(id);
  doc["language"] = json!(lang_name(lang));
  if with_fix {
    doc["fix"] = json!("FIXED");
  }
  // `globals` is the harness's own key: global utility rule files of the project
  let gl = doc.as_object_mut().and_then(|o| o.remove("globals"));
  let text = doc.to_string();
  let mut globals = GlobalRules::default();
  if let Some(Value::Array(gs)) = gl {
    let mut utils = vec![];
    for g in gs {
      let mut g = g.clone();
      g["language"] = json!(lang_name(lang));
      match serde_yaml::from_str(&g.to_string()) {
        Ok(u) => utils.push(u),
        Err(_) => return None,
      }
    }
    match ast_grep_config::DeserializeEnv::parse_global_utils(utils) {
      Ok(reg) => globals = reg,
      Err(_) => return None,
    }
  }
  let r = std::panic::catch_unwind(std::panic::AssertUnwindSafe(|| from_yaml_string::<SupportLang>(&text, &globals)));
  match r {
    Ok(Ok(mut v)) if v.len() == 1 => v.pop(),
    _ => None,
  }
}

pub fn scan_unit(ctx: &Ctx, rng: &mut Rng, o: &mut Out) {
  let variants = if ctx.thorough { 10 } else { 2 };
  let sets_per_src = if ctx.thorough { 12 } else { 5 };
  let sources = small_sources(rng, variants);
  let mut oracle_cases = 0usize;
  for (si, src) in sources.iter().enumerate() {
    let grep = src.lang.ast_grep(&src.text);
    let root = grep.root();
    let all: Vec<N> = root.dfs().collect();
    if all.len() > 400 || src.text.contains("ast-grep-ignore") {
      continue;
    }
    if treedump::contract_violation(&root).is_some() {
      continue;
    }
    let tid = format!("S{si}");
    let ids = register_tree(o, &tid, src, &root);
    let m = harvest(&root, src.lang, rng);
    for set in 0..sets_per_src {
      // a set of 1..8 rules that load as RuleConfig (i.e. have potential kinds)
      let want = 1 + rng.below(8);
      let mut configs: Vec<RuleConfig<SupportLang>> = vec![];
      let mut tries = 0;
      if set == 0 {
        // the deterministic shape-derived rules (shadowed utility ids, positional rules) first
        for (i, spec) in fixed_specs(&root, &m).iter().enumerate() {
          if let Some(c) = load_config(spec, &format!("f{i}"), src.lang, i % 3 == 0) {
            configs.push(c);
          }
        }
      }
      while configs.len() < want && tries < 60 {
        tries += 1;
        let share = rng.chance(1, 2);
        let depth = 1 + rng.below(3);
        let spec = gen_core(&m, rng, share, depth);
        // ids deliberately not in generation order, some with fixes
        let id = format!("r{}-{}", 9 - configs.len(), set);
        let with_fix = rng.chance(1, 3);
        if let Some(c) = load_config(&spec, &id, src.lang, with_fix) {
          configs.push(c);
        }
      }
      if configs.is_empty() {
        continue;
      }
      // --- find_all for each rule, from the root and from a random inner node
      let mut rx = Regexes::default();
      let dumps: Vec<Value> = configs.iter().map(|c| dump_core(&c.matcher, &mut rx, true)).collect();
      let rxt = regex_table(&rx, &all, &ids);
      let mut per_rule_find_all: Vec<Vec<(usize, Value)>> = vec![];
      for (c, d) in configs.iter().zip(&dumps) {
        let start = if rng.chance(1, 4) { rng.pick(&all).clone() } else { root.clone() };
        let r = guard(|| {
          let v: Vec<Value> = start.find_all(&c.matcher).map(|nm| json!([ids.of(nm.get_node()), env_json(&nm, &ids)])).collect();
          json!(v)
        });
        o.op("find_all", json!({"t": tid, "core": d, "regex": rxt, "start": ids.of(&start)}), r);
        // from the root, for the oracles
        let from_root: Vec<(usize, Value)> = root.find_all(&c.matcher).map(|nm| (ids.of(nm.get_node()), env_json(&nm, &ids))).collect();
        per_rule_find_all.push(from_root);
      }
      // --- combined scan
      let refs: Vec<&RuleConfig<SupportLang>> = configs.iter().collect();
      let scan = CombinedScan::new(refs);
      let result = scan.scan(&grep, false);
      let mut by_id = serde_json::Map::new();
      for (rule, ms) in &result.matches {
        by_id.insert(rule.id.clone(), json!(ms.iter().map(|nm| json!([ids.of(nm.get_node()), env_json(nm, &ids)])).collect::<Vec<_>>()));
      }
      let rules_json: Vec<Value> = configs
        .iter()
        .zip(&dumps)
        .map(|(c, d)| json!({"id": c.id, "hasFix": c.fix.is_some(), "core": d}))
        .collect();
      o.op("combined", json!({"t": tid, "rules": rules_json, "regex": rxt}), Value::Object(by_id.clone()));
      // --- oracles on the implementation alone
      for (c, fa) in configs.iter().zip(&per_rule_find_all) {
        oracle_cases += 1;
        // per-node matching in document order
        let per_node: Vec<(usize, Value)> = all.iter().filter_map(|n| c.matcher.match_node(n.clone()).map(|nm| (ids.of(nm.get_node()), env_json(&nm, &ids)))).collect();
        if &per_node != fa {
          o.oracle("find-all-vs-per-node", false, json!({"fp": "find_all differs from per-node matching", "lang": lang_name(src.lang), "src": src.text, "rule": c.id}));
        }
        let combined: Vec<(usize, Value)> = by_id
          .get(&c.id)
          .and_then(|v| v.as_array())
          .map(|a| a.iter().map(|x| (x[0].as_u64().unwrap() as usize, x[1].clone())).collect())
          .unwrap_or_default();
        if &combined != fa {
          o.oracle("combined-vs-find-all", false, json!({"fp": "combined scan differs from single-rule search", "lang": lang_name(src.lang), "src": src.text, "rule": c.id, "combined": combined.len(), "single": fa.len()}));
        }
        // overlap-free traversal keeps exactly the outermost matches
        let visited: Vec<usize> = Visitor::new(&c.matcher).reentrant(false).visit(root.clone()).map(|nm| ids.of(nm.get_node())).collect();
        let matched_set: std::collections::HashSet<usize> = fa.iter().map(|x| x.0).collect();
        // note: `find_all` reports the node the matcher returns; for outermost-ness we need the
        // candidates that matched, which for rule matchers are the same nodes
        let outermost: Vec<usize> = all
          .iter()
          .filter(|n| matched_set.contains(&ids.of(n)) && !n.ancestors().any(|a| matched_set.contains(&ids.of(&a))))
          .map(|n| ids.of(n))
          .collect();
        // `replace_all` (the library's replace-every-match call) edits exactly the outermost matches
        let replaced: Vec<(usize, usize)> = root.replace_all(&c.matcher, "R").iter().map(|e| (e.position, e.position + e.deleted_length)).collect();
        let outer_ranges: Vec<(usize, usize)> = all.iter().filter(|n| outermost.contains(&ids.of(n))).map(|n| (n.range().start, n.range().end)).collect();
        if c.fix.is_none() && replaced != outer_ranges {
          o.oracle("visit-outermost", false, json!({"fp": "replace_all does not edit exactly the outermost matches", "lang": lang_name(src.lang), "src": src.text, "rule": c.id, "replaced": replaced, "outermost": outer_ranges}));
        }
        if visited != outermost {
          o.oracle("visit-outermost", false, json!({"fp": "non-reentrant visit is not the outermost matches", "lang": lang_name(src.lang), "src": src.text, "rule": c.id, "visited": visited, "outermost": outermost}));
        }
      }
    }
  }
  o.oracle("scan-done", true, json!({"cases": oracle_cases}));
}

/// `Pattern::fixed_string()` and the CLI end to end
pub fn cli_unit(ctx: &Ctx, rng: &mut Rng, o: &mut Out) {
  let sources = crate::corpus::load();
  let per_src = if ctx.thorough { 40 } else { 6 };
  let exe = std::env::current_exe().unwrap().parent().unwrap().join("agv-sg");
  let dir = tempfile::tempdir().expect("tempdir");
  let mut cases = 0usize;
  for src in &sources {
    let grep = src.lang.ast_grep(&src.text);
    let root = grep.root();
    let named: Vec<N> = root.dfs().filter(|n| n.is_named() && n.range().len() > 0 && n.range().len() <= 60 && !n.text().contains('\n')).collect();
    if named.is_empty() {
      continue;
    }
    let ext = src.name.rsplit('.').next().unwrap_or("txt");
    let file = dir.path().join(format!("f.{ext}"));
    std::fs::write(&file, &src.text).unwrap();
    for _ in 0..per_src {
      let pn = rng.pick(&named);
      let text = pn.text().to_string();
      let Ok(pat) = Pattern::try_new(&text, src.lang) else { continue };
      let (sname, mk) = *rng.pick(&STRICT);
      let p = pat.clone().with_strictness(mk());
      let pd = treedump::dump_pattern(&p.node);
      o.op("fixed_string", json!({"p": pd, "s": sname}), json!(p.fixed_string()));
      // library result
      let lib: Vec<(usize, usize)> = root.find_all(&p).map(|nm| (nm.range().start, nm.range().end)).collect();
      // CLI result (file mode: goes through the literal prefilter and the walker)
      let out = run_cli(&exe, &["run", &format!("--pattern={text}"), "-l", &lang_name(src.lang), "--strictness", sname, "--json=stream", file.to_str().unwrap()], 20);
      cases += 1;
      match out {
        Err(e) => o.oracle("cli-run", false, json!({"fp": format!("cli-run {e}"), "pattern": text, "strictness": sname, "lang": lang_name(src.lang)})),
        Ok(stdout) => {
          let mut cli: Vec<(usize, usize)> = vec![];
          let mut bad_json = false;
          for line in stdout.lines().filter(|l| !l.trim().is_empty()) {
            match serde_json::from_str::<Value>(line) {
              Ok(v) => cli.push((v["range"]["byteOffset"]["start"].as_u64().unwrap_or(0) as usize, v["range"]["byteOffset"]["end"].as_u64().unwrap_or(0) as usize)),
              Err(_) => bad_json = true,
            }
          }
          if bad_json || cli != lib {
            let unnamed_literal = !p.fixed_string().is_empty() && matches!(sname, "cst" | "smart");
            o.oracle(
              "cli-run",
              false,
              json!({"fp": format!("cli-run differs from library search strictness={sname} unnamed-literal={unnamed_literal}"),
                     "pattern": text, "lang": lang_name(src.lang), "file": src.name, "cli": cli.len(), "lib": lib.len()}),
            );
          }
        }
      }
    }
  }
  // contextual patterns through the command line: `run -p CONTEXT --selector KIND --strictness S`
  // against `Pattern::contextual(..).with_strictness(S)` of the library
  let ctx_cases = if ctx.thorough { 12 } else { 3 };
  for src in &sources {
    let grep = src.lang.ast_grep(&src.text);
    let root = grep.root();
    let ext = src.name.rsplit('.').next().unwrap_or("txt");
    let file = dir.path().join(format!("f.{ext}"));
    std::fs::write(&file, &src.text).unwrap();
    let cands: Vec<N> = root.dfs().filter(|n| n.is_named() && n.range().len() > 0 && n.range().len() <= 50 && !n.text().contains('\n') && n.children().len() > 0).collect();
    for _ in 0..ctx_cases {
      if cands.is_empty() {
        break;
      }
      let cn = rng.pick(&cands);
      let Some(sel) = cn.dfs().skip(1).filter(|d| d.is_named() && !d.kind().is_empty() && d.kind() != "ERROR").last() else { continue };
      let text = cn.text().to_string();
      let selector = sel.kind().to_string();
      let Ok(pat) = Pattern::contextual(&text, &selector, src.lang) else { continue };
      for (sname, mk) in STRICT {
        let p = pat.clone().with_strictness(mk());
        let lib: Vec<(usize, usize)> = root.find_all(&p).map(|nm| (nm.range().start, nm.range().end)).collect();
        let out = run_cli(&exe, &["run", &format!("--pattern={text}"), "--selector", &selector, "-l", &lang_name(src.lang), "--strictness", sname, "--json=stream", file.to_str().unwrap()], 20);
        cases += 1;
        let cli: Option<Vec<(usize, usize)>> = out.ok().map(|stdout| {
          stdout.lines().filter(|l| !l.trim().is_empty()).filter_map(|l| serde_json::from_str::<Value>(l).ok()).map(|v| (v["range"]["byteOffset"]["start"].as_u64().unwrap_or(0) as usize, v["range"]["byteOffset"]["end"].as_u64().unwrap_or(0) as usize)).collect()
        });
        if cli.as_ref() != Some(&lib) {
          let unnamed_literal = !p.fixed_string().is_empty() && matches!(sname, "cst" | "smart");
          o.oracle(
            "cli-run",
            false,
            json!({"fp": format!("cli-run --selector differs from library search strictness={sname} unnamed-literal={unnamed_literal}"),
                   "pattern": text, "selector": selector, "lang": lang_name(src.lang), "file": src.name, "cli": cli.map(|c| c.len()), "lib": lib.len()}),
          );
        }
      }
    }
  }
  // token-dropped files: the pattern is a node's own text, the FILE is that text with one unnamed
  // token (nested at least two levels down) left out — kept only when the shortened text still
  // parses and the library still finds the pattern in it under `ast` (optional modifiers such as
  // `static`, `async`, `pub`, `readonly`). The matcher skips the token there, so the literal
  // prefilter must not demand its text.
  let tries = if ctx.thorough { 400 } else { 80 };
  let mut witnesses = 0usize;
  for src in &sources {
    let grep = src.lang.ast_grep(&src.text);
    let root = grep.root();
    let named: Vec<N> = root.dfs().filter(|n| n.is_named() && n.range().len() > 0 && n.range().len() <= 160 && !n.text().contains('\n')).collect();
    let ext = src.name.rsplit('.').next().unwrap_or("txt");
    let mut found_here = 0usize;
    // candidates in a random order, only those that HAVE a nested unnamed token to drop (picking
    // nodes blindly left the quick tier without a single witness)
    fn deep_of<'r>(pn: &N<'r>) -> Vec<N<'r>> {
      pn.dfs()
        .filter(|u| !u.is_named() && u.children().len() == 0 && u.range().len() >= 2 && u.parent().map(|q| q.node_id() != pn.node_id()).unwrap_or(false))
        .collect()
    }
    let mut cands: Vec<&N> = named.iter().filter(|pn| !deep_of(pn).is_empty()).collect();
    for i in (1..cands.len()).rev() {
      cands.swap(i, rng.below(i + 1));
    }
    for pn in cands.into_iter().take(tries) {
      if found_here >= 3 {
        break;
      }
      let mut deep: Vec<N> = deep_of(pn);
      deep.sort_by_key(|u| std::cmp::Reverse(u.range().len()));
      let text = pn.text().to_string();
      let Ok(pat) = Pattern::try_new(&text, src.lang) else { continue };
      for u in deep.iter().take(4) {
        let (ps, us, ue) = (pn.range().start, u.range().start, u.range().end);
        let file_text = format!("{} {}\n", &text[..us - ps], &text[ue - ps..]);
        if file_text.contains(&*u.text()) {
          continue;
        }
        let g2 = src.lang.ast_grep(&file_text);
        if g2.root().dfs().any(|n| n.is_error() || n.get_ts_node().is_missing()) {
          continue;
        }
        let mk_ast = STRICT.iter().find(|x| x.0 == "ast").unwrap().1;
        if g2.root().find(&pat.clone().with_strictness(mk_ast())).is_none() {
          continue;
        }
        found_here += 1;
        witnesses += 1;
        let file = dir.path().join(format!("drop.{ext}"));
        std::fs::write(&file, &file_text).unwrap();
        for sname in ["ast", "relaxed", "signature", "smart"] {
          let mk = STRICT.iter().find(|x| x.0 == sname).unwrap().1;
          let p = pat.clone().with_strictness(mk());
          let lib: Vec<(usize, usize)> = g2.root().find_all(&p).map(|nm| (nm.range().start, nm.range().end)).collect();
          let out = run_cli(&exe, &["run", &format!("--pattern={text}"), "-l", &lang_name(src.lang), "--strictness", sname, "--json=stream", file.to_str().unwrap()], 20);
          cases += 1;
          let cli: Option<Vec<(usize, usize)>> = out.ok().map(|stdout| {
            stdout.lines().filter(|l| !l.trim().is_empty()).filter_map(|l| serde_json::from_str::<Value>(l).ok()).map(|v| (v["range"]["byteOffset"]["start"].as_u64().unwrap_or(0) as usize, v["range"]["byteOffset"]["end"].as_u64().unwrap_or(0) as usize)).collect()
          });
          if cli.as_ref() != Some(&lib) {
            let unnamed_literal = !p.fixed_string().is_empty() && matches!(sname, "cst" | "smart");
            o.oracle(
              "cli-run",
              false,
              json!({"fp": format!("cli-run differs from library search strictness={sname} unnamed-literal={unnamed_literal}"),
                     "pattern": text, "lang": lang_name(src.lang), "source": file_text, "dropped_token": u.text(), "cli": cli.map(|c| c.len()), "lib": lib.len()}),
            );
          }
        }
        break;
      }
    }
  }
  o.oracle("cli-run-token-dropped", true, json!({"cases": witnesses}));
  // regress corpus: hand-minimised inputs of past findings (inputs, not suppressions)
  let regress: [(SupportLang, &str, &str, &str, &str); 4] = [
    (SupportLang::Php, "php", "<?php\nECHO 1;\n", "echo $A;", "smart"),
    (SupportLang::JavaScript, "js", "bar(1)\n", "foo($A)", "signature"),
    (SupportLang::Java, "java", "class A {\n  public static int x = 1;\n}\n", "private final", "ast"),
    (SupportLang::CSharp, "cs", "using System;\n", "System", "smart"),
  ];
  for (lang, ext, source, pattern, sname) in regress {
    let file = dir.path().join(format!("regress.{ext}"));
    std::fs::write(&file, source).unwrap();
    let Ok(pat) = Pattern::try_new(pattern, lang) else { continue };
    let mk = STRICT.iter().find(|x| x.0 == sname).unwrap().1;
    let p = pat.with_strictness(mk());
    let grep = lang.ast_grep(source);
    let lib: Vec<(usize, usize)> = grep.root().find_all(&p).map(|nm| (nm.range().start, nm.range().end)).collect();
    let out = run_cli(&exe, &["run", &format!("--pattern={pattern}"), "-l", &lang_name(lang), "--strictness", sname, "--json=stream", file.to_str().unwrap()], 20);
    cases += 1;
    let cli: Option<Vec<(usize, usize)>> = out.ok().map(|stdout| {
      stdout.lines().filter(|l| !l.trim().is_empty()).filter_map(|l| serde_json::from_str::<Value>(l).ok()).map(|v| (v["range"]["byteOffset"]["start"].as_u64().unwrap_or(0) as usize, v["range"]["byteOffset"]["end"].as_u64().unwrap_or(0) as usize)).collect()
    });
    if cli.as_ref() != Some(&lib) {
      let unnamed_literal = !p.fixed_string().is_empty() && matches!(sname, "cst" | "smart");
      o.oracle(
        "cli-run",
        false,
        json!({"fp": format!("cli-run differs from library search strictness={sname} unnamed-literal={unnamed_literal}"),
               "pattern": pattern, "lang": lang_name(lang), "source": source, "cli": cli.map(|c| c.len()), "lib": lib.len()}),
      );
    }
  }
  // `sg scan` against the library search, embedded documents included: a host file is searched as
  // the host document plus the documents `get_injections` extracts from it (script, style), each
  // with the rules of its language — whether or not the rule file restricts the rule to paths
  // (`files:` / `ignores:`; a restriction that selects the file must not change what is found in it)
  let page = "<html>\n<head>\n<style>\n  a { color: red }\n  .b { margin: 0 }\n</style>\n</head>\n<body>\n<script>\n  console.log(1)\n  foo(console.log(2))\n</script>\n<p foo>console.log(0)</p>\n<script>console.log(3)</script>\n<style>p{color:blue}</style>\n</body>\n</html>\n";
  let scan_files: [(&str, SupportLang, &str); 4] = [
    ("web/page.html", SupportLang::Html, page),
    ("web/plain.js", SupportLang::JavaScript, "console.log(4)\nfoo(5)\n"),
    ("web/plain.css", SupportLang::Css, "a { color: red }\n"),
    ("web/deep/other.html", SupportLang::Html, "<script>\nfoo(console.log(6))\n</script>\n"),
  ];
  let scan_rules: [(SupportLang, &str); 6] = [
    (SupportLang::JavaScript, r#"{"pattern": "console.log($A)"}"#),
    (SupportLang::JavaScript, r#"{"kind": "number"}"#),
    (SupportLang::Css, r#"{"kind": "declaration"}"#),
    (SupportLang::Css, r#"{"pattern": "color: $C"}"#),
    (SupportLang::Html, r#"{"kind": "script_element"}"#),
    (SupportLang::Html, r#"{"kind": "attribute_name"}"#),
  ];
  // (extra keys of the rule document, the files it leaves selected)
  let conditions: [(&str, fn(&str) -> bool); 5] = [
    ("", |_| true),
    ("files: ['**/*.html']\n", |f| f.ends_with(".html")),
    ("ignores: ['**/*.js']\n", |f| !f.ends_with(".js")),
    ("files: ['web/**']\nignores: ['web/deep/**']\n", |f| !f.starts_with("web/deep/")),
    ("ignores: ['**/nothing-here/**']\n", |_| true),
  ];
  let sdir = tempfile::tempdir().expect("tempdir");
  for (rel, _, text) in scan_files {
    let p = sdir.path().join(rel);
    std::fs::create_dir_all(p.parent().unwrap()).unwrap();
    std::fs::write(&p, text).unwrap();
  }
  let mut scan_cases = 0usize;
  for (rlang, rule) in scan_rules {
    let spec: Value = json!({"rule": serde_json::from_str::<Value>(rule).unwrap()});
    let Some(cfg) = load_config(&spec, "r", rlang, false) else {
      o.oracle("cli-scan", false, json!({"fp": "a plain rule of the scan cases does not load", "rule": rule}));
      continue;
    };
    for (extra, selected) in conditions {
      // library: every document of every selected file, in the rule's language
      let mut lib: Vec<(String, usize, usize)> = vec![];
      for (rel, flang, text) in scan_files {
        if !selected(rel) {
          continue;
        }
        let host = flang.ast_grep(text);
        let mut docs = vec![host.inner.clone()];
        docs.extend(host.inner.get_injections(|s| s.parse::<SupportLang>().ok()));
        for d in &docs {
          if *d.lang() != rlang {
            continue;
          }
          lib.extend(d.root().find_all(&cfg.matcher).map(|m| (rel.to_string(), m.range().start, m.range().end)));
        }
      }
      lib.sort();
      let yaml = format!("id: r\nlanguage: {}\n{}rule: {}\n", lang_name(rlang), extra, rule);
      let rule_file = sdir.path().join("rule.yml");
      std::fs::write(&rule_file, &yaml).unwrap();
      // `files` / `ignores` globs are relative to the working directory
      let out = Command::new("timeout")
        .arg("30")
        .arg(&exe)
        .args(["scan", "-r", "rule.yml", "--json=stream", "web"])
        .current_dir(sdir.path())
        .stdin(Stdio::null())
        .stderr(Stdio::null())
        .output();
      scan_cases += 1;
      let cli: Option<Vec<(String, usize, usize)>> = out.ok().filter(|o| matches!(o.status.code(), Some(0) | Some(1))).map(|o| {
        let mut v: Vec<(String, usize, usize)> = String::from_utf8_lossy(&o.stdout)
          .lines()
          .filter(|l| !l.trim().is_empty())
          .filter_map(|l| serde_json::from_str::<Value>(l).ok())
          .map(|v| (v["file"].as_str().unwrap_or("").to_string(), v["range"]["byteOffset"]["start"].as_u64().unwrap_or(0) as usize, v["range"]["byteOffset"]["end"].as_u64().unwrap_or(0) as usize))
          .collect();
        v.sort();
        v
      });
      if cli.as_ref() != Some(&lib) {
        o.oracle(
          "cli-scan",
          false,
          json!({"fp": format!("cli-scan differs from library search: rule language {} path-conditioned={}", lang_name(rlang), !extra.is_empty()),
                 "rule": yaml, "cli": cli, "lib": lib}),
        );
      }
    }
  }
  // two rules scanned together: one restricted to paths, one of ANOTHER language without restriction —
  // which files the walk visits is decided from all rules; every selected file of either language is
  // searched with the rules of its language
  for (ri, ui) in [(0usize, 2usize), (2, 0), (4, 1), (1, 5)] {
    let (rl, rrule) = scan_rules[ri];
    let (ul, urule) = scan_rules[ui];
    let (Some(rcfg), Some(ucfg)) = (
      load_config(&json!({"rule": serde_json::from_str::<Value>(rrule).unwrap()}), "restricted", rl, false),
      load_config(&json!({"rule": serde_json::from_str::<Value>(urule).unwrap()}), "unrestricted", ul, false),
    ) else { continue };
    for (extra, selected) in &conditions[1..] {
      let mut lib: Vec<(String, usize, usize, String)> = vec![];
      for (rel, flang, text) in scan_files {
        let host = flang.ast_grep(text);
        let mut docs = vec![host.inner.clone()];
        docs.extend(host.inner.get_injections(|s| s.parse::<SupportLang>().ok()));
        for d in &docs {
          if *d.lang() == rl && selected(rel) {
            lib.extend(d.root().find_all(&rcfg.matcher).map(|m| (rel.to_string(), m.range().start, m.range().end, "restricted".to_string())));
          }
          if *d.lang() == ul {
            lib.extend(d.root().find_all(&ucfg.matcher).map(|m| (rel.to_string(), m.range().start, m.range().end, "unrestricted".to_string())));
          }
        }
      }
      lib.sort();
      let yaml = format!("id: restricted\nlanguage: {}\n{}rule: {}\n---\nid: unrestricted\nlanguage: {}\nrule: {}\n", lang_name(rl), extra, rrule, lang_name(ul), urule);
      std::fs::write(sdir.path().join("pair.yml"), &yaml).unwrap();
      let out = Command::new("timeout")
        .arg("30")
        .arg(&exe)
        .args(["scan", "-r", "pair.yml", "--json=stream", "web"])
        .current_dir(sdir.path())
        .stdin(Stdio::null())
        .stderr(Stdio::null())
        .output();
      scan_cases += 1;
      let cli: Option<Vec<(String, usize, usize, String)>> = out.ok().filter(|o| matches!(o.status.code(), Some(0) | Some(1))).map(|o| {
        let mut v: Vec<(String, usize, usize, String)> = String::from_utf8_lossy(&o.stdout)
          .lines()
          .filter(|l| !l.trim().is_empty())
          .filter_map(|l| serde_json::from_str::<Value>(l).ok())
          .map(|v| (v["file"].as_str().unwrap_or("").to_string(), v["range"]["byteOffset"]["start"].as_u64().unwrap_or(0) as usize, v["range"]["byteOffset"]["end"].as_u64().unwrap_or(0) as usize, v["ruleId"].as_str().unwrap_or("").to_string()))
          .collect();
        v.sort();
        v
      });
      if cli.as_ref() != Some(&lib) {
        o.oracle(
          "cli-scan",
          false,
          json!({"fp": format!("cli-scan differs from library search: a path-conditioned {} rule next to an unrestricted {} rule", lang_name(rl), lang_name(ul)),
                 "rules": yaml, "cli": cli, "lib": lib}),
        );
      }
    }
  }
  o.oracle("cli-scan", true, json!({"cases": scan_cases}));
  o.oracle("cli-run-done", true, json!({"cases": cases}));
}

pub fn run_cli(exe: &std::path::Path, args: &[&str], timeout_s: u64) -> Result<String, String> {
  let mut child = Command::new("timeout")
    .arg(format!("{timeout_s}"))
    .arg(exe)
    .args(args)
    .stdin(Stdio::null())
    .stdout(Stdio::piped())
    .stderr(Stdio::null())
    .spawn()
    .map_err(|e| format!("spawn:{e}"))?;
  let mut out = String::new();
  use std::io::Read;
  child.stdout.take().unwrap().read_to_string(&mut out).map_err(|_| "non-utf8".to_string())?;
  let st = child.wait().map_err(|e| format!("wait:{e}"))?;
  match st.code() {
    Some(124) => Err("hang".into()),
    Some(c) if c == 0 || c == 1 => Ok(out),
    Some(101) => Err("panic".into()),
    Some(c) => Err(format!("exit{c}")),
    None => Err("signal".into()),
  }
}

pub fn exec(_op: &str, _a: &Value) -> Option<Value> {
  None
}
