//! C02 / C03 units: the pattern matcher on real trees.
//!  * `tree`       register a dumped document with the model driver
//!  * `cut_shape`  the real `Pattern::try_new(holed text).node` vs the model's structural `cut`
//!  * `match`      `Pattern::match_node` outcome, bindings and `get_match_len` vs the model
use super::Ctx;
use crate::corpus::{self, Source};
use crate::treedump::{self, Ids};
use crate::util::*;
use ast_grep_core::matcher::MatcherExt;
use ast_grep_core::{Language, MatchStrictness, Matcher, Node, Pattern, StrDoc};
use ast_grep_language::SupportLang;
use serde_json::{json, Value};

type N<'r> = Node<'r, StrDoc<SupportLang>>;

pub const STRICT: [(&str, fn() -> MatchStrictness); 5] = [
  ("cst", || MatchStrictness::Cst),
  ("smart", || MatchStrictness::Smart),
  ("ast", || MatchStrictness::Ast),
  ("relaxed", || MatchStrictness::Relaxed),
  ("signature", || MatchStrictness::Signature),
];

pub fn register_tree(o: &mut Out, tid: &str, src: &Source, root: &N) -> Ids {
  let (dump, ids) = treedump::dump(root);
  let n = ids.0.len();
  o.op(
    "tree",
    json!({"id": tid, "lang": src.lang.to_string(), "name": src.name, "src": src.text_of(), "tree": dump}),
    json!({"nodes": n}),
  );
  ids
}

impl Source {
  pub fn text_of(&self) -> &str {
    &self.text
  }
}

fn has_error(n: &N) -> bool {
  n.dfs().any(|d| d.is_error() || d.get_ts_node().is_missing())
}

pub fn env_json(nm: &ast_grep_core::NodeMatch<StrDoc<SupportLang>>, ids: &Ids) -> Value {
  let env = nm.get_env();
  let mut single = serde_json::Map::new();
  let mut multi = serde_json::Map::new();
  for v in env.get_matched_variables() {
    match v {
      ast_grep_core::meta_var::MetaVariable::Capture(name, _) => {
        if let Some(n) = env.get_match(&name) {
          single.insert(name, json!(ids.of(n)));
        }
      }
      ast_grep_core::meta_var::MetaVariable::MultiCapture(name) => {
        let ns = env.get_multiple_matches(&name);
        multi.insert(name, json!(ns.iter().map(|n| ids.of(n)).collect::<Vec<_>>()));
      }
      _ => {}
    }
  }
  json!({"s": single, "m": multi})
}

/// the real matcher on one node: outcome, bindings, matched length
pub fn run_match(p: &Pattern<SupportLang>, node: &N, ids: &Ids) -> Value {
  guard(|| {
    use ast_grep_core::matcher::MatcherExt;
    let len = p.get_match_len(node.clone());
    match p.match_node(node.clone()) {
      None => json!({"m": false, "env": {"s": {}, "m": {}}, "len": len}),
      Some(nm) => json!({"m": true, "env": env_json(&nm, ids), "len": len}),
    }
  })
}

#[derive(Clone)]
pub struct Hole {
  pub start: usize,
  pub end: usize,
  pub name: String,
  /// `None` = single hole `$NAME`; `Some((parent_id, first_child_index, last_child_index))` = `$$$NAME`
  pub run: Option<(usize, usize, usize)>,
}

/// the structural `cut` of the property: hole ↦ MetaVar, leaf ↦ Terminal, inner ↦ Internal
/// without missing children (written independently of the converter in pattern.rs)
pub fn cut(n: &N, holes: &[Hole], src: &str, ids: &Ids) -> Value {
  let r = n.range();
  for h in holes {
    if h.run.is_none() && h.start == r.start && h.end == r.end {
      return json!(["M", ["cap", h.name, true]]);
    }
  }
  if n.is_leaf() {
    return json!(["T", &src[r.start..r.end], n.is_named(), n.kind_id()]);
  }
  let me = ids.of(n);
  let run = holes.iter().find(|h| matches!(h.run, Some((p, _, _)) if p == me));
  let mut kids = vec![];
  for (i, c) in n.children().enumerate() {
    if let Some(h) = run {
      let (_, a, b) = h.run.unwrap();
      if i == a {
        kids.push(json!(["M", ["mcap", h.name]]));
      }
      if i >= a && i <= b {
        continue;
      }
    }
    if c.get_ts_node().is_missing() {
      continue;
    }
    kids.push(cut(&c, holes, src, ids));
  }
  json!(["I", n.kind_id(), kids])
}

/// pattern text: the node's text with every hole range replaced by its `$` spelling
fn holed_text(n: &N, holes: &[Hole], src: &str) -> String {
  let r = n.range();
  let mut hs: Vec<&Hole> = holes.iter().collect();
  hs.sort_by_key(|h| h.start);
  let mut out = String::new();
  let mut pos = r.start;
  for h in hs {
    out.push_str(&src[pos..h.start]);
    if h.run.is_some() {
      out.push_str("$$$");
    } else {
      out.push('$');
    }
    out.push_str(&h.name);
    pos = h.end;
  }
  out.push_str(&src[pos..r.end]);
  out
}

fn choose_holes(n: &N, rng: &mut Rng, ids: &Ids, allow_run: bool) -> Vec<Hole> {
  let mut holes: Vec<Hole> = vec![];
  let descendants: Vec<N> = n.dfs().skip(1).filter(|d| d.is_named() && d.range().end > d.range().start).collect();
  if descendants.is_empty() {
    return holes;
  }
  let want = 1 + rng.below(3);
  let mut tries = 0;
  while holes.len() < want && tries < 12 {
    tries += 1;
    let d = rng.pick(&descendants);
    let r = d.range();
    if r == n.range() {
      continue;
    }
    if holes.iter().any(|h| !(r.end <= h.start || r.start >= h.end)) {
      continue;
    }
    holes.push(Hole { start: r.start, end: r.end, name: format!("V{}", holes.len()), run: None });
  }
  if allow_run && rng.chance(1, 3) {
    // a trailing run of siblings of some inner node: children[i..=j], followed only by unnamed closers
    let parents: Vec<N> = n.dfs().filter(|p| p.children().len() >= 2).collect();
    if !parents.is_empty() {
      let p = rng.pick(&parents);
      let kids: Vec<N> = p.children().collect();
      let mut j = kids.len();
      while j > 0 && !kids[j - 1].is_named() {
        j -= 1;
      }
      if j > 0 {
        let j = j - 1; // last named child
        let named_idx: Vec<usize> = (0..=j).filter(|i| kids[*i].is_named()).collect();
        let i = *rng.pick(&named_idx);
        let (s, e) = (kids[i].range().start, kids[j].range().end);
        if e > s && !holes.iter().any(|h| !(e <= h.start || s >= h.end)) && !(s == n.range().start && e == n.range().end) {
          holes.push(Hole { start: s, end: e, name: "W".to_string(), run: Some((ids.of(p), i, j)) });
        }
      }
    }
  }
  holes
}

/// a dumped pattern with the text of every terminal blanked: `["T", text, named, kind]`
fn strip_text(v: &Value) -> Value {
  match v {
    Value::Array(a) if a.first().and_then(|t| t.as_str()) == Some("T") && a.len() == 4 => {
      json!(["T", "", a[2], a[3]])
    }
    Value::Array(a) => Value::Array(a.iter().map(strip_text).collect()),
    other => other.clone(),
  }
}

pub fn cut_unit(ctx: &Ctx, rng: &mut Rng, o: &mut Out) {
  let mut sources = corpus::load();
  // the same files with CRLF line ends: tokens that span lines (block comments, template strings,
  // raw strings) then contain `\r\n`, and a pattern cut from them must still match them
  let crlf: Vec<Source> = sources
    .iter()
    .filter(|s| s.text.contains('\n') && !s.text.contains('\r'))
    .map(|s| Source { lang: s.lang, name: format!("{}#crlf", s.name), text: s.text.replace('\n', "\r\n") })
    .collect();
  sources.extend(crlf);
  // very deep cuts: chains and nestings of 100–220 levels (recursion bounds, stack guards and fuel
  // all scale with the HEIGHT of the pattern)
  let chain = |n: usize| (0..n).map(|i| format!("x{i}")).collect::<Vec<_>>().join(" + ");
  let nest = |n: usize, open: &str, close: &str, core: &str| format!("{}{}{}", open.repeat(n), core, close.repeat(n));
  for (lang, name, text) in [
    (SupportLang::JavaScript, "deep/chain130.js", format!("let s = {};\n", chain(130))),
    (SupportLang::JavaScript, "deep/array160.js", format!("let a = {};\n", nest(160, "[", "]", "1, 2"))),
    (SupportLang::Python, "deep/chain129.py", format!("s = {}\n", chain(129))),
    (SupportLang::Python, "deep/paren150.py", format!("s = {}\n", nest(150, "(", ")", "a, b"))),
    (SupportLang::Json, "deep/array140.json", format!("{}\n", nest(140, "[", "]", "1, 2"))),
  ] {
    sources.push(Source { lang, name: name.to_string(), text });
  }
  let per_src = if ctx.thorough { 600 } else { 150 };
  let mut guard_pass = 0usize;
  let mut guard_total = 0usize;
  let mut oracle_cases = 0usize;
  let mut cli_cases = 0usize;
  let mut cli_ws_cases = 0usize;
  for (si, src) in sources.iter().enumerate() {
    let grep = src.lang.ast_grep(&src.text);
    let root = grep.root();
    let tid = format!("T{si}");
    let ids = register_tree(o, &tid, src, &root);
    let deep = src.name.starts_with("deep/");
    let all_count = if deep { usize::MAX } else { root.dfs().count() };
    let max_len = if deep { 100_000 } else { 400 };
    let nodes: Vec<N> = if deep {
      // only the tall ones: the first few nodes in document order (the sources are well-formed;
      // `has_error` on every node of a 150-level tree is quadratic times the depth)
      root.dfs().filter(|n| n.is_named() && n.range().len() > 0).take(5).collect()
    } else {
      root
        .dfs()
        .filter(|n| n.is_named() && n.range().len() > 0 && n.range().len() <= max_len && !has_error(n))
        .collect()
    };
    if nodes.is_empty() {
      continue;
    }
    let mut cli_here = 0usize;
    let mut cli_ws_here = 0usize;
    for k in 0..(if deep { 6 } else { per_src }) {
      let n = rng.pick(&nodes);
      // k % 4 == 0: no holes at all (self match)
      let holes = if k % 4 == 0 { vec![] } else { choose_holes(n, rng, &ids, true) };
      let text = holed_text(n, &holes, &src.text);
      guard_total += 1;
      let Ok(pat) = Pattern::try_new(&text, src.lang) else { continue };
      let real = treedump::dump_pattern(&pat.node);
      let want = cut(n, &holes, &src.text, &ids);
      // the property's guard is about SHAPE (kinds, structure, holes): the token texts of the
      // converted pattern are part of what is checked, not of the guard — a converter that garbles
      // them (e.g. re-encodes non-ASCII text) must reach the oracle below
      if strip_text(&real) != strip_text(&want) {
        continue; // the holed text does not parse to the same shape: outside the property
      }
      guard_pass += 1;
      let holes_json: Vec<Value> = holes
        .iter()
        .map(|h| json!({"start": h.start, "end": h.end, "name": h.name, "run": h.run.map(|(p, a, b)| json!([p, a, b]))}))
        .collect();
      // the model's own `cut` must produce the same pattern (ties `cut` to the converter)
      o.op("cut_shape", json!({"t": tid, "node": ids.of(n), "holes": holes_json}), real.clone());
      // the theorem's hypotheses (NoMissing / HolesOK), evaluated by the model driver: measured
      o.op("info:holes_ok", json!({"t": tid, "node": ids.of(n), "holes": holes_json}), Value::Null);
      // oracle (C02): must match, every hole bound to a node with exactly the hole's byte range
      // (single) / exactly the run of siblings (ellipsis)
      let verdict = |r: &Value| -> (bool, String) {
        if r["m"] != json!(true) {
          return (false, "no match".into());
        }
        for h in &holes {
          match h.run {
            None => {
              let bound = r["env"]["s"][&h.name].as_u64();
              let good = bound.map(|id| {
                let nd = root.dfs().find(|d| ids.of(d) == id as usize).unwrap();
                nd.range().start == h.start && nd.range().end == h.end
              });
              if good != Some(true) {
                return (false, format!("hole {} bound to {:?}", h.name, bound));
              }
            }
            Some((pid, a, b)) => {
              let p = root.dfs().find(|d| ids.of(d) == pid).unwrap();
              let expect: Vec<usize> = p.children().enumerate().filter(|(i, _)| *i >= a && *i <= b).map(|(_, c)| ids.of(&c)).collect();
              if r["env"]["m"][&h.name] != json!(expect) {
                return (false, format!("ellipsis {} bound to {} expected {:?}", h.name, r["env"]["m"][&h.name], expect));
              }
            }
          }
        }
        (true, String::new())
      };
      // the same cut written as a CONTEXTUAL pattern (`context` = the holed text, `selector` = the
      // kind of the node): where the selector denotes the cut node itself (judged on the hole-free
      // text, so that nothing about holes enters the guard) the pattern must match the node too
      if !deep && k % 3 == 1 {
        let kind = n.kind().to_string();
        let plain = n.text().to_string();
        if let (Ok(c0), Ok(t0)) = (Pattern::contextual(&plain, &kind, src.lang), Pattern::try_new(&plain, src.lang)) {
          if treedump::dump_pattern(&c0.node) == treedump::dump_pattern(&t0.node) {
            oracle_cases += 1;
            let (ok, why, r) = match Pattern::contextual(&text, &kind, src.lang) {
              Ok(cp) => {
                let r = run_match(&cp, n, &ids);
                let (ok, why) = verdict(&r);
                (ok, why, r)
              }
              Err(e) => (false, format!("contextual pattern does not build: {e}"), Value::Null),
            };
            if !ok {
              o.oracle(
                "cut-matches",
                false,
                json!({"fp": format!("cut-matches contextual pattern (selector = kind of the cut node) run={}", holes.iter().any(|h| h.run.is_some())),
                       "lang": src.lang.to_string(), "file": src.name, "node_range": [n.range().start, n.range().end],
                       "pattern": text, "selector": kind, "why": why, "result": r}),
              );
            }
          }
        }
      }
      // the SEARCH reports it too: `find_all` from the root yields a match on exactly this node
      // (also when an enclosing node that starts at the same byte matched first), and `find` from
      // the node itself returns it
      if !deep && k % 5 == 2 && all_count <= 3000 {
        oracle_cases += 1;
        let found = root.find_all(&pat).any(|m| m.get_node().node_id() == n.node_id());
        let own = n.find(&pat).map(|m| m.get_node().node_id() == n.node_id()).unwrap_or(false);
        if !found || !own {
          o.oracle(
            "cut-matches",
            false,
            json!({"fp": format!("cut-matches search: find_all from the root / find from the node does not report the node (find_all={found} find={own})"),
                   "lang": src.lang.to_string(), "file": src.name, "node_range": [n.range().start, n.range().end], "pattern": text}),
          );
        }
      }
      // the command line reports it too (`sg run -p <cut> -l <language>`): the language wrapper of the
      // CLI, its pattern pre-processing and its printer sit between the text and the matcher —
      // the cut node must be among the matches, every single hole bound to the bytes it replaced;
      // a few cases per source, every language
      // (also cuts whose text begins or ends with white space — a comment token that keeps the blanks or
      // the carriage return behind it: the command line must hand the pattern on as it was written)
      let edge_ws = text.trim() != text;
      if !deep && ((!holes.is_empty() && cli_here < 2) || (edge_ws && cli_ws_here < 3)) && pat.match_node(n.clone()).is_some() {
        if edge_ws {
          cli_ws_here += 1;
          cli_ws_cases += 1;
        } else {
          cli_here += 1;
        }
        cli_cases += 1;
        let exe = crate::units::procpool::sg_bin();
        let dir = tempfile::tempdir().expect("tempdir");
        // the walker keeps a file of the language's own extension
        let ext = src.name.rsplit('.').next().unwrap_or("txt").split('#').next().unwrap_or("txt").to_string();
        let file = dir.path().join(format!("cut-source.{ext}"));
        std::fs::write(&file, &src.text).expect("write");
        let sname = STRICT[cli_cases % STRICT.len()].0;
        let out = crate::units::scan::run_cli(&exe, &["run", &format!("--pattern={text}"), "-l", &format!("{}", src.lang), "--strictness", sname, "--json=stream", file.to_str().unwrap()], 30);
        let mut why = String::new();
        match &out {
          Err(e) => why = format!("cli: {e}"),
          Ok(text_out) => {
            let recs: Vec<Value> = text_out.lines().filter_map(|l| serde_json::from_str(l).ok()).collect();
            let mine = recs.iter().find(|r| r["range"]["byteOffset"]["start"] == json!(n.range().start) && r["range"]["byteOffset"]["end"] == json!(n.range().end));
            match mine {
              None => why = format!("the cut node is not among the {} reported matches", recs.len()),
              Some(r) => {
                for h in holes.iter().filter(|h| h.run.is_none()) {
                  let b = &r["metaVariables"]["single"][&h.name]["range"]["byteOffset"];
                  if b["start"] != json!(h.start) || b["end"] != json!(h.end) {
                    why = format!("hole {} bound to {}", h.name, b);
                  }
                }
              }
            }
          }
        }
        if !why.is_empty() {
          o.oracle(
            "cut-matches",
            false,
            json!({"fp": format!("cut-matches command line: sg run -l {} strictness={sname}", src.lang),
                   "lang": src.lang.to_string(), "file": src.name, "node_range": [n.range().start, n.range().end], "pattern": text, "why": why}),
          );
        }
      }
      for (sname, mk) in STRICT {
        let p = pat.clone().with_strictness(mk());
        let r = run_match(&p, n, &ids);
        o.op("match", json!({"t": tid, "node": ids.of(n), "p": real, "s": sname}), r.clone());
        oracle_cases += 1;
        let (ok, why) = verdict(&r);
        if !ok {
          o.oracle(
            "cut-matches",
            false,
            json!({"fp": format!("cut-matches strictness={sname} run={}", holes.iter().any(|h| h.run.is_some())),
                   "lang": src.lang.to_string(), "file": src.name, "node_range": [n.range().start, n.range().end],
                   "pattern": text, "why": why, "result": r}),
          );
        }
      }
    }
  }
  // left-nested code: a pattern cut from a node that is the LEFTMOST descendant of an enclosing node
  // the same pattern matches too (`a.b().c()` and `$O.$M()`, `a + b + c` and `$L + $R`): the search
  // reports the inner node as well as the outer one, although both start at the same byte
  let mut nested_cases = 0usize;
  for src in sources.iter().filter(|s| !s.name.starts_with("deep/")) {
    let grep = src.lang.ast_grep(&src.text);
    let root = grep.root();
    let mut here = 0usize;
    for outer in root.dfs() {
      if here >= 4 {
        break;
      }
      if !outer.is_named() || outer.range().len() > 200 || has_error(&outer) {
        continue;
      }
      // the leftmost descendant of the same kind
      let mut inner = None;
      let mut cur = outer.clone();
      loop {
        let first = cur.children().next();
        let Some(c) = first else { break };
        if c.range().start != outer.range().start {
          break;
        }
        if c.is_named() && c.kind_id() == outer.kind_id() && c.range().len() < outer.range().len() {
          inner = Some(c.clone());
          break;
        }
        cur = c;
      }
      let Some(inner) = inner else { continue };
      // every named child of the inner node becomes a hole
      let kids: Vec<N> = inner.children().filter(|c| c.is_named() && c.range().len() > 0).collect();
      if kids.is_empty() {
        continue;
      }
      let t = inner.text().to_string();
      let base = inner.range().start;
      let mut text = String::new();
      let mut at = 0usize;
      for (i, k) in kids.iter().enumerate() {
        text.push_str(&t[at..k.range().start - base]);
        text.push_str(&format!("$V{i}"));
        at = k.range().end - base;
      }
      text.push_str(&t[at..]);
      let Ok(pat) = Pattern::try_new(&text, src.lang) else { continue };
      if pat.match_node(inner.clone()).is_none() || pat.match_node(outer.clone()).is_none() {
        continue;
      }
      here += 1;
      nested_cases += 1;
      let found: Vec<usize> = root.find_all(&pat).map(|m| m.get_node().node_id()).collect();
      let (has_inner, has_outer) = (found.contains(&inner.node_id()), found.contains(&outer.node_id()));
      if !has_inner || !has_outer {
        o.oracle(
          "cut-matches",
          false,
          json!({"fp": format!("cut-matches search: left-nested code, find_all reports outer={has_outer} inner={has_inner}"),
                 "lang": src.lang.to_string(), "file": src.name, "outer": [outer.range().start, outer.range().end], "inner": [inner.range().start, inner.range().end], "pattern": text}),
        );
      }
    }
  }
  o.oracle("cut-matches-left-nested", true, json!({"cases": nested_cases}));
  comments_in_patterns(o);
  o.oracle("cut-matches-done", true, json!({"cases": oracle_cases, "guard_pass": guard_pass, "guard_total": guard_total, "command_line_cases": cli_cases, "command_line_cases_with_white_space_at_an_edge": cli_ws_cases}));
}

/// "structurally identical code" for two occurrences of one meta-variable
fn struct_identical(a: &N, b: &N) -> bool {
  if a.node_id() == b.node_id() {
    return true;
  }
  // a node without NAMED children is compared by its text (gh #276 / #1087)
  let leaf = |n: &N| !n.children().any(|c| c.is_named());
  if leaf(a) || leaf(b) {
    return a.text() == b.text();
  }
  if a.kind_id() != b.kind_id() {
    return false;
  }
  let (ca, cb): (Vec<N>, Vec<N>) = (a.children().collect(), b.children().collect());
  ca.len() == cb.len() && ca.iter().zip(cb.iter()).all(|(x, y)| struct_identical(x, y))
}

/// C03: near misses — patterns cut from one node, tried on other nodes of the same file
/// comments are part of a pattern: a pattern cut from code WITH a comment keeps the comment node,
/// and under cst / smart / ast it does not match the same code without the comment (under relaxed
/// and signature comments are ignored)
pub fn comments_in_patterns(o: &mut Out) {
  let sources = corpus::load();
  let mut comment_cases = 0usize;
  for src in sources.iter().filter(|s| !s.name.starts_with("deep/")) {
    let grep = src.lang.ast_grep(&src.text);
    let root = grep.root();
    let tsl = src.lang.get_ts_language();
    let is_comment = |k: u16| tsl.node_kind_for_id(k).map(|n| n.contains("comment")).unwrap_or(false);
    let mut here = 0usize;
    for n in root.dfs() {
      if here >= 3 {
        break;
      }
      if !n.is_named() || n.range().len() > 300 || has_error(&n) {
        continue;
      }
      let comments: Vec<N> = n.dfs().skip(1).filter(|d| d.is_named() && is_comment(d.kind_id())).collect();
      if comments.is_empty() || comments.len() > 2 || is_comment(n.kind_id()) {
        continue;
      }
      let text = n.text().to_string();
      let Ok(pat) = Pattern::try_new(&text, src.lang) else { continue };
      // the text must be a pattern of its own node at all — judged at the level that ignores
      // comments, so that nothing about comments enters the guard
      if pat.clone().with_strictness(MatchStrictness::Relaxed).match_node(n.clone()).is_none() {
        continue;
      }
      here += 1;
      comment_cases += 1;
      fn count(p: &ast_grep_core::matcher::PatternNode, f: &dyn Fn(u16) -> bool) -> usize {
        match p {
          ast_grep_core::matcher::PatternNode::MetaVar { .. } => 0,
          ast_grep_core::matcher::PatternNode::Terminal { kind_id, .. } => f(*kind_id) as usize,
          ast_grep_core::matcher::PatternNode::Internal { kind_id, children } => f(*kind_id) as usize + children.iter().map(|c| count(c, f)).sum::<usize>(),
        }
      }
      let in_pattern = count(&pat.node, &is_comment);
      if in_pattern != comments.len() {
        o.oracle("cut-matches", false, json!({"fp": "pattern tree loses the comment nodes of its text", "lang": src.lang.to_string(), "file": src.name,
          "pattern": text, "comments_in_code": comments.len(), "comments_in_pattern": in_pattern}));
        continue;
      }
      // the same code without its first comment
      let c = &comments[0];
      let (cs, ce) = (c.range().start - n.range().start, c.range().end - n.range().start);
      let without = format!("{}{}", &text[..cs], &text[ce..]);
      let g2 = src.lang.ast_grep(&without);
      if g2.root().dfs().any(|d| d.is_error() || d.get_ts_node().is_missing()) {
        continue;
      }
      let left = g2.root().dfs().filter(|d| d.is_named() && is_comment(d.kind_id())).count();
      if left + 1 != comments.len() {
        continue;
      }
      for (sname, mk) in STRICT {
        if !matches!(sname, "cst" | "smart" | "ast") {
          continue;
        }
        let p = pat.clone().with_strictness(mk());
        if let Some(m) = g2.root().find(&p) {
          o.oracle("cut-matches", false, json!({"fp": format!("a pattern with a comment matches code without it, strictness={sname}"), "lang": src.lang.to_string(), "file": src.name,
            "pattern": text, "code": without, "matched": m.text()}));
        }
      }
    }
  }
  o.oracle("cut-matches-comments", true, json!({"cases": comment_cases}));
}

/// The matcher combinators of the library (`Op::every(..).and(..)`, `Op::either(..).or(..)`, `Op::not`,
/// `Op::all`, `Op::any`) through the search entry points: `find` = the first of the per-node matches,
/// `find_all` = all of them, `replace` edits the first one — whatever a candidate that was tried and
/// rejected bound on the way.
pub fn ops_search(o: &mut Out) {
  use ast_grep_core::matcher::MatcherExt;
  use ast_grep_core::ops::Op;
  let cases: [(SupportLang, &str, &str, &str); 6] = [
    (SupportLang::JavaScript, "x = 1; y = 2; z = 3;", "$A = $B", "x = $_"),
    (SupportLang::JavaScript, "f(1); g(2); f(g(3));", "$F($A)", "f($$$)"),
    (SupportLang::Python, "x = 1\ny = 2\nx = 3\n", "$A = $B", "x = $_"),
    (SupportLang::Rust, "fn m() { a(1); b(2); a(b(3)); }", "$F($A)", "a($$$)"),
    (SupportLang::Go, "package p\nfunc m() { a(1); b(2) }\n", "$F($A)", "a($$$)"),
    (SupportLang::TypeScript, "let p = q; let r = s; let p2 = t;", "let $A = $B", "let p = $_"),
  ];
  let mut n_cases = 0usize;
  for (lang, src, p1, p2) in cases {
    let grep = lang.ast_grep(src);
    let root = grep.root();
    let all: Vec<N> = root.dfs().collect();
    let (Ok(a), Ok(b)) = (Pattern::try_new(p1, lang), Pattern::try_new(p2, lang)) else { continue };
    macro_rules! check {
      ($name:expr, $m:expr) => {{
        let m = $m;
        n_cases += 1;
        let show = |nm: &ast_grep_core::NodeMatch<StrDoc<SupportLang>>| -> Value {
          let env: std::collections::BTreeMap<String, String> = std::collections::HashMap::<String, String>::from(nm.get_env().clone()).into_iter().collect();
          json!([nm.range().start, nm.range().end, env])
        };
        let per_node: Vec<Value> = all.iter().filter_map(|n| m.match_node(n.clone())).map(|nm| show(&nm)).collect();
        let found_all: Vec<Value> = root.find_all(&m).map(|nm| show(&nm)).collect();
        let found: Value = root.find(&m).map(|nm| show(&nm)).unwrap_or(Value::Null);
        let replaced: Value = root.replace(&m, "R").map(|e| json!([e.position, e.position + e.deleted_length])).unwrap_or(Value::Null);
        let first = per_node.first().cloned().unwrap_or(Value::Null);
        let first_range = if first.is_null() { Value::Null } else { json!([first[0], first[1]]) };
        if found_all != per_node || found != first || replaced != first_range {
          o.oracle("ops-search", false, json!({"fp": format!("ops-search {}: find / find_all / replace differ from per-node matching", $name),
            "lang": lang.to_string(), "src": src, "p1": p1, "p2": p2, "per_node": per_node, "find_all": found_all, "find": found, "replace": replaced}));
        }
      }};
    }
    check!("every(p1).and(not p2)", Op::every(a.clone()).and(Op::not(b.clone())));
    check!("every(p1).and(p2)", Op::every(a.clone()).and(b.clone()));
    check!("either(p2).or(p1)", Op::either(b.clone()).or(a.clone()));
    check!("all[p1, p2]", Op::all([a.clone(), b.clone()]));
    check!("any[p2, p1]", Op::any([b.clone(), a.clone()]));
    check!("not(p2) and p1", Op::every(Op::not(b.clone())).and(a.clone()));
  }
  o.oracle("ops-search", true, json!({"cases": n_cases}));
}

pub fn near_miss_unit(ctx: &Ctx, rng: &mut Rng, o: &mut Out) {
  yaml_strictness(o);
  ops_search(o);
  comments_in_patterns(o);
  let sources = corpus::load();
  let variants = if ctx.thorough { 6 } else { 2 };
  let pats_per_src = if ctx.thorough { 60 } else { 30 };
  let cands_per_pat = if ctx.thorough { 40 } else { 14 };
  let mut si = 0;
  for src0 in sources.iter() {
    for v in 0..=variants {
      let text = if v == 0 { src0.text.clone() } else { corpus::mutate(&src0.text, rng) };
      let src = Source { lang: src0.lang, name: format!("{}#{v}", src0.name), text };
      let grep = src.lang.ast_grep(&src.text);
      let root = grep.root();
      let tid = format!("N{si}");
      si += 1;
      let ids = register_tree(o, &tid, &src, &root);
      let all: Vec<N> = root.dfs().collect();
      let named: Vec<N> = all.iter().filter(|n| n.is_named() && n.range().len() > 0 && n.range().len() <= 300).cloned().collect();
      if named.is_empty() {
        continue;
      }
      // structural equality behind a repeated meta-variable (`MetaVarEnv::insert` of a bound name):
      // pairs of nodes of the SAME kind, preferring pairs whose child counts differ (one child list
      // may be a prefix of the other: `new Foo` / `new Foo(1)`, `if` with and without `else`)
      {
        use ast_grep_core::meta_var::MetaVarEnv;
        let budget = if ctx.thorough { 400 } else { 120 };
        let mut by_kind: std::collections::HashMap<u16, Vec<&N>> = std::collections::HashMap::new();
        for n in all.iter().filter(|n| n.children().len() > 0) {
          by_kind.entry(n.kind_id()).or_default().push(n);
        }
        let mut groups: Vec<&Vec<&N>> = by_kind.values().filter(|g| g.len() >= 2).collect();
        groups.sort_by_key(|g| g[0].kind_id());
        let mut done = 0usize;
        'outer: for g in groups {
          for (i, a) in g.iter().enumerate() {
            for b in g.iter().skip(i + 1) {
              let differ = a.children().len() != b.children().len();
              if !differ && !rng.chance(1, 8) {
                continue;
              }
              for (x, y) in [(a, b), (b, a)] {
                let mut env = MetaVarEnv::new();
                let r = guard(|| {
                  env.insert("A", (**x).clone());
                  json!(env.insert("A", (**y).clone()).is_some())
                });
                // reference written from the documented meaning ("structurally identical code"):
                // same kind, same number of children, pairwise identical; a named leaf on either
                // side compares by text (gh #1087)
                let want = struct_identical(x, y);
                if r != json!(want) {
                  o.oracle(
                    "exact-match-structural",
                    false,
                    json!({"fp": format!("repeated variable: structural identity want={want} child-counts-differ={}", x.children().len() != y.children().len()),
                           "lang": src.lang.to_string(), "a": x.text(), "b": y.text(), "kind": x.kind(), "got": r}),
                  );
                }
                o.op("exact_match", json!({"t": tid, "a": ids.of(x), "b": ids.of(y)}), r);
              }
              done += 1;
              if done >= budget {
                break 'outer;
              }
            }
          }
        }
      }
      // token-dropped near misses: the pattern is the node's own text with one UNNAMED token left
      // out (and, half of the time, the named sibling after it replaced by a hole); tried on the
      // node itself at all five levels: whether the left-over token may be skipped is exactly
      // what distinguishes the strictness levels (`[$A]` against `[,a]` must not match under cst)
      let drops = if ctx.thorough { 40 } else { 16 };
      for _ in 0..drops {
        let pn = rng.pick(&named);
        let inner: Vec<N> = pn.dfs().filter(|p| p.children().len() >= 2).take(40).collect();
        if inner.is_empty() {
          continue;
        }
        let par = rng.pick(&inner);
        let kids: Vec<N> = par.children().collect();
        let unnamed_idx: Vec<usize> = (0..kids.len()).filter(|i| !kids[*i].is_named() && kids[*i].range().len() > 0).collect();
        if unnamed_idx.is_empty() {
          continue;
        }
        let ui = *rng.pick(&unnamed_idx);
        let u = kids[ui].range();
        let (ps, pe) = (pn.range().start, pn.range().end);
        let mut text = String::new();
        text.push_str(&src.text[ps..u.start]);
        text.push(' ');
        // the named sibling right after the dropped token becomes a hole (50 %)
        let next_named = kids.get(ui + 1).filter(|k| k.is_named() && k.range().len() > 0);
        match next_named {
          Some(k) if rng.chance(1, 2) && k.range().end <= pe => {
            text.push_str(&src.text[u.end..k.range().start]);
            text.push_str("$V0");
            text.push_str(&src.text[k.range().end..pe]);
          }
          _ => text.push_str(&src.text[u.end..pe]),
        }
        let Ok(pat) = Pattern::try_new(&text, src.lang) else { continue };
        let pd = treedump::dump_pattern(&pat.node);
        o.op("pattern_wf", json!({"p": pd}), json!(pattern_wf(&pat.node)));
        for (sn, mk2) in STRICT {
          let p = pat.clone().with_strictness(mk2());
          let r = run_match(&p, pn, &ids);
          let matched = r["m"] == json!(true);
          o.op("match", json!({"t": tid, "node": ids.of(pn), "p": pd, "s": sn}), r);
          if matched {
            o.op(
              "oracle:aligns",
              json!({"t": tid, "node": ids.of(pn), "p": pd, "s": sn, "fp": format!("unjustified match strictness={sn}"), "pattern": text, "lang": src.lang.to_string()}),
              json!(true),
            );
          }
        }
      }
      // ellipsis followed by a hole: `f($$$W, $_)`, `f($$$, $V, c)` … The hole after the ellipsis
      // must still bind a node (only unnamed punctuation written after `$$$` is never compared);
      // tried on the node itself and on other nodes of its kind — in particular on ones with
      // FEWER children, where nothing is left for the hole
      let eh = if ctx.thorough { 30 } else { 12 };
      for _ in 0..eh {
        let pn = rng.pick(&named);
        let inner: Vec<N> = pn.dfs().filter(|p| p.children().filter(|k| k.is_named()).count() >= 2 && p.range().len() <= 300).take(40).collect();
        if inner.is_empty() {
          continue;
        }
        let par = rng.pick(&inner).clone();
        let kids: Vec<N> = par.children().filter(|k| k.is_named() && k.range().len() > 0).collect();
        if kids.len() < 2 {
          continue;
        }
        let k = 1 + rng.below(kids.len() - 1); // the child that becomes the hole; kids[0..k] become `$$$`
        let (ps, pe) = (par.range().start, par.range().end);
        let hole = *rng.pick(&["$_", "$V1", "$$V1", "$_X", "$$_"]);
        let ell = *rng.pick(&["$$$W", "$$$"]);
        let mut text = String::new();
        text.push_str(&src.text[ps..kids[0].range().start]);
        text.push_str(ell);
        text.push_str(&src.text[kids[k - 1].range().end..kids[k].range().start]);
        text.push_str(hole);
        text.push_str(&src.text[kids[k].range().end..pe]);
        let Ok(pat) = Pattern::try_new(&text, src.lang) else { continue };
        let pd = treedump::dump_pattern(&pat.node);
        o.op("pattern_wf", json!({"p": pd}), json!(pattern_wf(&pat.node)));
        let mut cands: Vec<N> = all.iter().filter(|c| c.kind_id() == par.kind_id()).take(10).cloned().collect();
        cands.push(par.clone());
        for c in &cands {
          for (sn, mk2) in STRICT {
            let p = pat.clone().with_strictness(mk2());
            let r = run_match(&p, c, &ids);
            let matched = r["m"] == json!(true);
            o.op("match", json!({"t": tid, "node": ids.of(c), "p": pd, "s": sn}), r);
            if matched {
              o.op(
                "oracle:aligns",
                json!({"t": tid, "node": ids.of(c), "p": pd, "s": sn, "fp": format!("unjustified match strictness={sn}"), "pattern": text, "lang": src.lang.to_string()}),
                json!(true),
              );
            }
          }
        }
      }
      for _ in 0..pats_per_src {
        let pn = rng.pick(&named);
        let holes = if rng.chance(1, 3) { vec![] } else { choose_holes(pn, rng, &ids, true) };
        // sometimes reuse one variable name for two holes (coherence checks inside the pattern)
        let mut holes = holes;
        if holes.len() >= 2 && rng.chance(1, 3) && holes[0].run.is_none() && holes[1].run.is_none() {
          holes[1].name = holes[0].name.clone();
        }
        // sometimes the unnamed / dropped spellings
        let mut text = holed_text(pn, &holes, &src.text);
        if rng.chance(1, 6) {
          text = text.replacen("$V0", "$$V0", 1);
        } else if rng.chance(1, 6) {
          text = text.replacen("$V0", "$_", 1);
        } else if rng.chance(1, 8) {
          text = text.replacen("$$$W", "$$$", 1);
        }
        let Ok(pat) = Pattern::try_new(&text, src.lang) else { continue };
        let pd = treedump::dump_pattern(&pat.node);
        // hypothesis of the soundness theorem (C03 `PatternWF`): no inner pattern node without children
        o.op("pattern_wf", json!({"p": pd}), json!(pattern_wf(&pat.node)));
        // candidates: same kind first, then random others
        let mut cands: Vec<&N> = all.iter().filter(|c| c.kind_id() == pn.kind_id()).take(cands_per_pat / 2).collect();
        while cands.len() < cands_per_pat {
          cands.push(rng.pick(&all));
        }
        let (sname, mk) = *rng.pick(&STRICT);
        let strict_all = rng.chance(1, 4);
        for c in cands {
          let mut levels: Vec<(&str, fn() -> MatchStrictness)> = if strict_all { STRICT.to_vec() } else { vec![(sname, mk)] };
          // a pair that matches at the drawn level is tried at every other level too: matches are
          // rare among near misses, and a leniency that is legitimate at one level (skipping an
          // unnamed token) is exactly what must NOT be reported at a stricter one
          if !strict_all {
            let p0 = pat.clone().with_strictness(mk());
            if run_match(&p0, c, &ids)["m"] == json!(true) {
              levels = STRICT.to_vec();
            }
          }
          for (sn, mk2) in levels {
            let p = pat.clone().with_strictness(mk2());
            let r = run_match(&p, c, &ids);
            let matched = r["m"] == json!(true);
            o.op("match", json!({"t": tid, "node": ids.of(c), "p": pd, "s": sn}), r);
            if matched {
              // C03 oracle: the reported match must be justified by an alignment (Lean
              // `Spec.alignsB`, run by the driver on the dumped tree)
              o.op(
                "oracle:aligns",
                json!({"t": tid, "node": ids.of(c), "p": pd, "s": sn, "fp": format!("unjustified match strictness={sn}"), "pattern": text, "lang": src.lang.to_string()}),
                json!(true),
              );
            }
          }
        }
      }
    }
  }
}

/// The strictness a rule FILE asks for is the strictness its pattern gets: `pattern: {context,
/// [selector], strictness: L}` loaded by the real rule loader carries `L` (and `smart` without the
/// key), in several languages — the model is handed the strictness the implementation parsed, so
/// this conversion is checked on its own.
pub fn yaml_strictness(o: &mut Out) {
  let samples: [(SupportLang, &str, Option<&str>); 5] = [
    (SupportLang::JavaScript, "foo(bar)", None),
    (SupportLang::TypeScript, "class A { a = 1 }", Some("public_field_definition")),
    (SupportLang::Python, "foo(bar, baz)", None),
    (SupportLang::Rust, "let a = 1;", None),
    (SupportLang::Go, "fmt.Println(a)", None),
  ];
  let mut cases = 0usize;
  for (lang, ctx, sel) in samples {
    for want in ["cst", "smart", "ast", "relaxed", "signature", ""] {
      let mut p = json!({"context": ctx});
      if let Some(s) = sel {
        p["selector"] = json!(s);
      }
      if !want.is_empty() {
        p["strictness"] = json!(want);
      }
      let spec = json!({"rule": {"pattern": p}});
      cases += 1;
      let got = match super::rules::load_core(&spec, lang) {
        Ok(core) => crate::ruledump::core_strictness(&core).join(","),
        Err(e) => format!("load error: {e}"),
      };
      let expect = if want.is_empty() { "smart" } else { want };
      if got != expect {
        o.oracle("yaml-strictness", false, json!({"fp": format!("pattern object strictness={expect} is loaded as {got}"), "spec": spec, "lang": lang.to_string()}));
      }
    }
  }
  o.oracle("yaml-strictness", true, json!({"cases": cases}));
}

pub fn pattern_wf(p: &ast_grep_core::matcher::PatternNode) -> bool {
  use ast_grep_core::matcher::PatternNode as P;
  match p {
    P::Internal { children, .. } => !children.is_empty() && children.iter().all(pattern_wf),
    _ => true,
  }
}

pub fn exec(_op: &str, _a: &Value) -> Option<Value> {
  None
}

