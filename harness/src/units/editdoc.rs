//! C10 units: editing a parsed document (`AstGrep::edit` / `AstGrep::replace` -> `Root::do_edit` ->
//! `perform_edit` -> `String::accept_edit`) against the Lean model of the text / `InputEdit`, and the
//! property's own oracle: the edited document's tree vs a fresh parse of the same text.
//!
//! * `editdoc`  : random edit histories on corpus documents of all languages (op `c10_history`,
//!                oracles `c10_text`, `c10_tree`), function-level `accept_edit` / `position_for_offset`
//!                on small adversarial texts (ops `c10_accept_edit`, `c10_pos`)
//! * `edittree` : the real `tree.edit` applied once / twice to a parsed tree (hook `trace_edit`) against
//!                the model's `editTree` (op `c10_edit_tree`)
use super::Ctx;
use crate::corpus;
use crate::treedump;
use crate::util::*;
use ast_grep_core::matcher::KindMatcher;
use ast_grep_core::source::Edit;
use ast_grep_core::verif_hooks_edit as hooks;
use ast_grep_core::{AstGrep, Doc, Language, Node, Pattern, StrDoc};
use ast_grep_language::SupportLang;
use serde_json::{json, Value};

type SDoc = StrDoc<SupportLang>;
type Sg = AstGrep<SDoc>;

// ------------------------------------------------------------------------------------------
// tree dumps (the observable of the property: kind id, byte range, points, named, child structure)
// ------------------------------------------------------------------------------------------

#[derive(Clone, PartialEq, Eq, Debug)]
struct N {
  kind: u16,
  start: usize,
  end: usize,
  named: bool,
  children: usize,
  sp: (usize, usize),
  ep: (usize, usize),
  depth: usize,
  parent: usize,
  bad: bool, // ERROR or MISSING
  /// character columns of start and end (`Position::column`, counted from the text of the line)
  cc: (usize, usize),
}

fn dfs(root: &Node<SDoc>) -> Vec<N> {
  fn go(n: &Node<SDoc>, depth: usize, parent: usize, out: &mut Vec<N>) {
    let r = n.range();
    let (sp, ep) = (n.start_pos().ts_point(), n.end_pos().ts_point());
    let me = out.len();
    out.push(N {
      kind: n.kind_id(),
      start: r.start,
      end: r.end,
      named: n.is_named(),
      children: 0,
      sp: (sp.row() as usize, sp.column() as usize),
      ep: (ep.row() as usize, ep.column() as usize),
      depth,
      parent,
      bad: n.is_error() || n.get_ts_node().is_missing(),
      cc: (n.start_pos().column(n), n.end_pos().column(n)),
    });
    let mut k = 0;
    for c in n.children() {
      k += 1;
      go(&c, depth + 1, me, out);
    }
    out[me].children = k;
  }
  let mut out = vec![];
  go(root, 0, 0, &mut out);
  out
}

fn clean(nodes: &[N]) -> bool {
  !nodes.iter().any(|n| n.bad)
}

/// first difference between two dumps (for the failure detail)
fn first_diff(a: &[N], b: &[N]) -> Value {
  for (i, (x, y)) in a.iter().zip(b.iter()).enumerate() {
    if x != y {
      return json!({"index": i, "edited": format!("{x:?}"), "fresh": format!("{y:?}")});
    }
  }
  json!({"index": a.len().min(b.len()), "edited_nodes": a.len(), "fresh_nodes": b.len()})
}

// ------------------------------------------------------------------------------------------
// documents
// ------------------------------------------------------------------------------------------

struct Base {
  dir: String,
  lang: SupportLang,
  /// the corpus file
  unit: String,
  /// what is appended for one more copy (the file minus header lines that may occur only once)
  more: String,
}

fn parses_clean(text: &str, lang: SupportLang) -> bool {
  let sg = lang.ast_grep(text);
  clean(&dfs(&sg.root()))
}

fn bases() -> Vec<Base> {
  let mut out = vec![];
  for s in corpus::load() {
    let dir = s.name.split('/').next().unwrap().to_string();
    let mut unit = s.text.clone();
    if !unit.ends_with('\n') {
      unit.push('\n');
    }
    if !parses_clean(&unit, s.lang) {
      continue;
    }
    // a second copy may not repeat the header (package / module / `<?php` lines): drop leading
    // lines until the concatenation parses
    let lines: Vec<&str> = unit.split_inclusive('\n').collect();
    let mut more = None;
    for k in 0..lines.len().min(12) {
      let cand: String = lines[k..].concat();
      if cand.trim().is_empty() {
        break;
      }
      if parses_clean(&format!("{unit}{cand}{cand}"), s.lang) {
        more = Some(cand);
        break;
      }
    }
    out.push(Base {
      dir,
      lang: s.lang,
      more: more.unwrap_or_default(),
      unit,
    });
  }
  out
}

fn comment_syntax(dir: &str) -> (&'static str, &'static str) {
  match dir {
    "bash" | "python" | "ruby" | "yaml" | "elixir" => ("# ", ""),
    "haskell" | "lua" => ("-- ", ""),
    "html" => ("<!-- ", " -->"),
    "css" => ("/* ", " */"),
    _ => ("// ", ""),
  }
}

fn build_text(b: &Base, target: usize) -> String {
  let mut t = b.unit.clone();
  while t.len() < target && !b.more.is_empty() {
    t.push_str(&b.more);
  }
  t
}

// ------------------------------------------------------------------------------------------
// edits
// ------------------------------------------------------------------------------------------

#[derive(Clone, Debug)]
enum Api {
  Edit,
  ReplaceKind(u16, String),
  ReplacePattern(String, String),
}

#[derive(Clone, Debug)]
struct Step {
  api: Api,
  class: &'static str,
  position: usize,
  deleted: usize,
  inserted: String,
}

fn api_json(a: &Api) -> Value {
  match a {
    Api::Edit => json!(["edit"]),
    Api::ReplaceKind(k, r) => json!(["replace_kind", k, r]),
    Api::ReplacePattern(p, r) => json!(["replace_pattern", p, r]),
  }
}

/// reference splice, written from the documentation of `Edit`
fn reference_splice(text: &str, pos: usize, del: usize, ins: &str) -> Option<String> {
  if pos + del > text.len() || !text.is_char_boundary(pos) || !text.is_char_boundary(pos + del) {
    return None;
  }
  Some(format!("{}{}{}", &text[..pos], ins, &text[pos + del..]))
}

const MB: [&str; 6] = ["é", "中文", "𝒳", "naïve ünï", "日本語テキスト", "→ λ"];

/// candidate edit for the current document; `None` = no candidate of this class here
fn candidate(rng: &mut Rng, b: &Base, sg: &Sg, nodes: &[N]) -> Option<Step> {
  let text = sg.source();
  let named: Vec<usize> = (1..nodes.len()).filter(|&i| nodes[i].named && nodes[i].end > nodes[i].start).collect();
  if named.is_empty() {
    return None;
  }
  // siblings (named) of node i
  let next_named = |i: usize| -> Option<usize> {
    let p = nodes[i].parent;
    (i + 1..nodes.len())
      .take_while(|&j| nodes[j].depth > nodes[p].depth)
      .find(|&j| nodes[j].parent == p && nodes[j].named && nodes[j].start >= nodes[i].end)
  };
  let prev_named = |i: usize| -> Option<usize> {
    let p = nodes[i].parent;
    (p + 1..i).rev().find(|&j| nodes[j].parent == p && nodes[j].named && nodes[j].end <= nodes[i].start)
  };
  // prefer shallow nodes (items, statements) half of the time
  let pick_node = |rng: &mut Rng| -> usize {
    if rng.chance(1, 2) {
      let shallow: Vec<usize> = named.iter().copied().filter(|&i| nodes[i].depth <= 2).collect();
      if !shallow.is_empty() {
        return shallow[rng.below(shallow.len())];
      }
    }
    named[rng.below(named.len())]
  };
  match rng.below(10) {
    // duplicate an item together with the separator that follows / precedes it (adds lines)
    0 | 1 => {
      let i = pick_node(rng);
      let x = &nodes[i];
      if let Some(j) = next_named(i) {
        let ins = format!("{}{}", &text[x.start..x.end], &text[x.end..nodes[j].start]);
        Some(Step { api: Api::Edit, class: "duplicate", position: x.start, deleted: 0, inserted: ins })
      } else if let Some(j) = prev_named(i) {
        let ins = format!("{}{}", &text[nodes[j].end..x.start], &text[x.start..x.end]);
        Some(Step { api: Api::Edit, class: "duplicate", position: x.end, deleted: 0, inserted: ins })
      } else {
        None
      }
    }
    // delete an item with its separator (removes lines)
    2 | 3 => {
      let i = pick_node(rng);
      let x = &nodes[i];
      if let Some(j) = next_named(i) {
        Some(Step { api: Api::Edit, class: "delete", position: x.start, deleted: nodes[j].start - x.start, inserted: String::new() })
      } else if let Some(j) = prev_named(i) {
        Some(Step { api: Api::Edit, class: "delete", position: nodes[j].end, deleted: x.end - nodes[j].end, inserted: String::new() })
      } else {
        None
      }
    }
    // a real `replace` call: first node of a kind / first match of a pattern, replaced by the text of
    // another node of the same kind
    4 | 5 | 6 => {
      let i = named[rng.below(named.len())];
      let same: Vec<usize> = named.iter().copied().filter(|&j| nodes[j].kind == nodes[i].kind && nodes[j].end - nodes[j].start < 200).collect();
      let y = &nodes[same.get(rng.below(same.len().max(1))).copied().unwrap_or(i)];
      let mut repl = text[y.start..y.end].to_string();
      if rng.chance(1, 4) && nodes[i].children == 0 {
        // a different length for sure
        repl.push_str(*rng.pick(&["_x", "2", "_longer_name"]));
      }
      let xt = &text[nodes[i].start..nodes[i].end];
      let api = if rng.chance(1, 2) && xt.len() < 120 && Pattern::try_new(xt, b.lang).is_ok() {
        Api::ReplacePattern(xt.to_string(), repl)
      } else {
        Api::ReplaceKind(nodes[i].kind, repl)
      };
      let e = real_replace_edit(sg, &api)?;
      Some(Step { api, class: "replace", position: e.position, deleted: e.deleted_length, inserted: String::from_utf8(e.inserted_text).ok()? })
    }
    // white space between two tokens: add / remove blanks and line breaks
    7 => {
      if rng.chance(2, 5) {
        // re-indent a line: the non-empty run of blanks at its start is replaced by ANOTHER
        // non-empty run (an indentation level used elsewhere in the document): in layout-sensitive
        // languages the line changes its block, in the others only positions move
        let mut lines: Vec<(usize, usize)> = vec![]; // (offset of the line start, width of its indentation)
        let mut off = 0usize;
        for l in text.split_inclusive('\n') {
          let w = l.bytes().take_while(|b| *b == b' ' || *b == b'\t').count();
          if w >= 1 && l[w..].trim().len() > 0 {
            lines.push((off, w));
          }
          off += l.len();
        }
        if lines.is_empty() {
          return None;
        }
        let (at, w) = lines[rng.below(lines.len())];
        let mut levels: Vec<usize> = lines.iter().map(|x| x.1).filter(|x| *x != w).collect();
        levels.sort();
        levels.dedup();
        let nw = if levels.is_empty() || rng.chance(1, 4) { if w > 1 && rng.chance(1, 2) { w - 1 } else { w + 1 + rng.below(3) } } else { levels[rng.below(levels.len())] };
        return Some(Step { api: Api::Edit, class: "reindent", position: at, deleted: w, inserted: " ".repeat(nw) });
      }
      let leaves: Vec<usize> = (1..nodes.len()).filter(|&i| nodes[i].children == 0).collect();
      if leaves.len() < 2 {
        return None;
      }
      let k = rng.below(leaves.len() - 1);
      let (a, c) = (&nodes[leaves[k]], &nodes[leaves[k + 1]]);
      if c.start < a.end {
        return None;
      }
      let gap = &text[a.end..c.start];
      if !gap.chars().all(|ch| ch == ' ' || ch == '\n') {
        return None;
      }
      if gap.len() >= 2 && rng.chance(1, 2) {
        // remove one character of the gap (a line break when there is one to spare)
        let off = if gap.matches('\n').count() >= 2 { gap.find('\n').unwrap() } else { gap.rfind(' ').unwrap_or(0) };
        if gap.matches('\n').count() == 1 && gap.as_bytes()[off] == b'\n' {
          return None;
        }
        Some(Step { api: Api::Edit, class: "ws-remove", position: a.end + off, deleted: 1, inserted: String::new() })
      } else if !gap.is_empty() {
        let ins = *rng.pick(&[" ", "\n", "\n\n", "  "]);
        // after the last line break of the gap the indentation must stay what it is
        let at = a.end + gap.find('\n').unwrap_or(0);
        Some(Step { api: Api::Edit, class: "ws-add", position: at, deleted: 0, inserted: ins.to_string() })
      } else {
        None
      }
    }
    // a comment with multi-byte text on its own line before a token that starts a line
    8 => {
      let (open, close) = comment_syntax(&b.dir);
      let starts: Vec<usize> = (1..nodes.len())
        .filter(|&i| nodes[i].children == 0 && nodes[i].start > 0 && {
          let before = &text[..nodes[i].start];
          let line = &before[before.rfind('\n').map(|p| p + 1).unwrap_or(0)..];
          before.contains('\n') && line.chars().all(|c| c == ' ')
        })
        .collect();
      if starts.is_empty() {
        return None;
      }
      let x = &nodes[starts[rng.below(starts.len())]];
      let before = &text[..x.start];
      let indent = &before[before.rfind('\n').map(|p| p + 1).unwrap_or(0)..];
      let ins = format!("{open}{}{close}\n{indent}", rng.pick(&MB));
      Some(Step { api: Api::Edit, class: "mb-comment", position: x.start, deleted: 0, inserted: ins })
    }
    // replace a leaf by the text of another leaf of the same kind through `edit` (multi-byte suffix sometimes)
    _ => {
      let leaves: Vec<usize> = named.iter().copied().filter(|&i| nodes[i].children == 0).collect();
      if leaves.is_empty() {
        return None;
      }
      let i = leaves[rng.below(leaves.len())];
      let same: Vec<usize> = leaves.iter().copied().filter(|&j| nodes[j].kind == nodes[i].kind).collect();
      let y = &nodes[same[rng.below(same.len())]];
      let mut ins = text[y.start..y.end].to_string();
      if rng.chance(1, 3) {
        ins.push_str(*rng.pick(&["é", "ü2", "_z"]));
      }
      Some(Step { api: Api::Edit, class: "leaf", position: nodes[i].start, deleted: nodes[i].end - nodes[i].start, inserted: ins })
    }
  }
}

/// the edit the real `Node::replace` produces for this call (`None`: no match)
fn real_replace_edit(sg: &Sg, api: &Api) -> Option<Edit<String>> {
  match api {
    Api::Edit => None,
    Api::ReplaceKind(k, r) => sg.root().replace(KindMatcher::from_id(*k), r.as_str()),
    Api::ReplacePattern(p, r) => {
      let pat = Pattern::try_new(p, *sg.lang()).ok()?;
      sg.root().replace(pat, r.as_str())
    }
  }
}

/// perform the step on the real document through the public API
fn apply(sg: &mut Sg, st: &Step) -> Result<(), String> {
  let r = std::panic::catch_unwind(std::panic::AssertUnwindSafe(|| match &st.api {
    Api::Edit => sg
      .edit(Edit::<String> { position: st.position, deleted_length: st.deleted, inserted_text: st.inserted.as_bytes().to_vec() })
      .map(|_| true)
      .map_err(|e| e.to_string()),
    Api::ReplaceKind(k, r) => sg.replace(KindMatcher::from_id(*k), r.as_str()).map_err(|e| e.to_string()),
    Api::ReplacePattern(p, r) => {
      let pat = Pattern::try_new(p, *sg.lang()).map_err(|e| e.to_string())?;
      sg.replace(pat, r.as_str()).map_err(|e| e.to_string())
    }
  }));
  match r {
    Err(_) => Err("panic".into()),
    Ok(Err(e)) => Err(e),
    Ok(Ok(false)) => Err("replace found no match".into()),
    Ok(Ok(true)) => Ok(()),
  }
}

fn fnv(bytes: &[u8]) -> String {
  let mut h: u64 = 0xcbf29ce484222325;
  for b in bytes {
    h ^= *b as u64;
    h = h.wrapping_mul(0x100000001b3);
  }
  h.to_string()
}

fn delta_class(st: &Step) -> &'static str {
  match st.inserted.len().cmp(&st.deleted) {
    std::cmp::Ordering::Greater => "grow",
    std::cmp::Ordering::Less => "shrink",
    std::cmp::Ordering::Equal => "same-length",
  }
}

/// the property on one document state: edited tree = fresh parse of the same text
/// (`fresh`: the dump of the fresh parse when the caller has it already); returns the edited dump
fn tree_verdict_with(sg: &Sg, lang: SupportLang, fresh: Option<Vec<N>>) -> Result<Vec<N>, Value> {
  let text = sg.source();
  let edited = dfs(&sg.root());
  let fresh = fresh.unwrap_or_else(|| dfs(&lang.ast_grep(text).root()));
  if edited == fresh {
    Ok(edited)
  } else {
    let root_end = edited.first().map(|n| n.end).unwrap_or(0);
    Err(json!({"diff": first_diff(&edited, &fresh), "text_len": text.len(), "edited_root_end": root_end,
      "edited_tree_exceeds_text": root_end > text.len()}))
  }
}

fn tree_verdict(sg: &Sg, lang: SupportLang) -> Result<(), Value> {
  tree_verdict_with(sg, lang, None).map(|_| ())
}

/// replay a recorded history (`lang`, `text`, `steps`) on the real code:
/// per step `[9 InputEdit fields.., len, fnv]`, then the final text
fn do_history(a: &Value) -> Value {
  let lang = corpus::lang_of_dir(a["lang"].as_str().unwrap_or("")).expect("lang");
  let mut sg = lang.ast_grep(a["text"].as_str().unwrap_or(""));
  let mut steps = vec![];
  for s in a["steps"].as_array().unwrap() {
    let st = step_of_json(s);
    // the InputEdit of the real `accept_edit` on a copy of the current text
    let mut copy = sg.source().to_string();
    let e = Edit::<String> { position: st.position, deleted_length: st.deleted, inserted_text: st.inserted.as_bytes().to_vec() };
    let ie = guard(|| json!(hooks::accept_edit_string(&mut copy, &e)));
    if ie == json!("panic") {
      steps.push(json!("panic"));
      break;
    }
    if let Err(e) = apply(&mut sg, &st) {
      steps.push(json!(e));
      break;
    }
    if std::str::from_utf8(sg.source().as_bytes()).is_err() {
      // the document's `String` no longer holds UTF-8: nothing more can be asked of it
      steps.push(json!("invalid-utf8"));
      return json!({"steps": steps, "text": String::from_utf8_lossy(sg.source().as_bytes())});
    }
    let mut rec: Vec<Value> = ie.as_array().unwrap().clone();
    rec.push(json!(sg.source().len()));
    rec.push(json!(fnv(sg.source().as_bytes())));
    steps.push(Value::Array(rec));
  }
  json!({"steps": steps, "text": String::from_utf8_lossy(sg.source().as_bytes())})
}

/// replay helper (not part of the op stream): run a recorded history and compare the edited tree with
/// the fresh parse; `{"same", "clean", "detail"}`; `clean` = every text of the history parses
/// without ERROR / MISSING (the property's quantifier)
fn do_tree_check(a: &Value) -> Value {
  let lang = corpus::lang_of_dir(a["lang"].as_str().unwrap_or("")).expect("lang");
  let mut sg = lang.ast_grep(a["text"].as_str().unwrap_or(""));
  let mut all_clean = clean(&dfs(&sg.root()));
  for s in a["steps"].as_array().unwrap() {
    let st = step_of_json(s);
    if let Err(e) = apply(&mut sg, &st) {
      return json!({"same": false, "clean": all_clean, "detail": e});
    }
    all_clean = all_clean && parses_clean(sg.source(), lang);
    if let Err(d) = tree_verdict(&sg, lang) {
      let kinds = |sgx: &Sg, idx: usize| -> Value {
        let mut out = vec![];
        fn go(n: &Node<SDoc>, out: &mut Vec<String>, depth: usize) {
          out.push(format!("{}{} [{}..{}]", " ".repeat(depth), n.kind(), n.range().start, n.range().end));
          for c in n.children() {
            go(&c, out, depth + 1);
          }
        }
        go(&sgx.root(), &mut out, 0);
        json!(out.into_iter().skip(idx.saturating_sub(2)).take(24).collect::<Vec<_>>())
      };
      let idx = d["diff"]["index"].as_u64().unwrap_or(0) as usize;
      let fresh = lang.ast_grep(sg.source());
      return json!({"same": false, "clean": all_clean, "detail": d, "edited": kinds(&sg, idx), "fresh": kinds(&fresh, idx), "text": sg.source()});
    }
  }
  json!({"same": true, "clean": all_clean})
}

fn step_json(st: &Step) -> Value {
  json!({"api": api_json(&st.api), "pos": st.position, "del": st.deleted, "ins": st.inserted})
}

fn step_of_json(s: &Value) -> Step {
  let api = match s["api"][0].as_str().unwrap_or("edit") {
    "replace_kind" => Api::ReplaceKind(s["api"][1].as_u64().unwrap() as u16, s["api"][2].as_str().unwrap().to_string()),
    "replace_pattern" => Api::ReplacePattern(s["api"][1].as_str().unwrap().to_string(), s["api"][2].as_str().unwrap().to_string()),
    _ => Api::Edit,
  };
  Step {
    api,
    class: "replayed",
    position: s["pos"].as_u64().unwrap() as usize,
    deleted: s["del"].as_u64().unwrap() as usize,
    inserted: s["ins"].as_str().unwrap().to_string(),
  }
}

/// hand-minimised witnesses of H10 (double `tree.edit` in `Root::do_edit`), replayed first:
/// `(lang, text, pos, del, ins)`.  The first one is `AGV.C10.doEdit_counterexample`.
const WITNESSES: &[(&str, &str, usize, usize, &str)] = &[
  // `[1, 22, 333]` -> `[22, 333]`: the re-parsed tree describes 6 bytes and a single number [2..5]
  ("json", "[1, 22, 333]", 1, 3, ""),
  // `[1, 22, 333]` -> `[1, 1, 22, 333]`: an ERROR node (two numbers) where the fresh parse has `, 333`
  ("json", "[1, 22, 333]", 1, 0, "1, "),
  // duplicate the first function: the stale tree re-describes `function a` at the place of `function bcd`
  // and extends beyond the end of the text
  (
    "javascript",
    "function a() { return 1 }\nfunction bcd() { return 22 }\nlet x = [1, 2, 3];\nfoo(x);\n",
    0,
    0,
    "function a() { return 1 }\n",
  ),
  ("rust", "fn a() {}\nfn bb() { 1; }\nfn c() {}\n", 0, 10, ""),
  // a byte order mark is text like any other (white space in JavaScript): a document that starts
  // with one, an edit that leaves one at offset 0, an edit that inserts one there
  ("javascript", "\u{feff}let a = 1;\nlet b = 2;\n", 7, 1, "zz"),
  ("javascript", "x;\u{feff}let a = 1;\nlet b = 2;\n", 0, 2, ""),
  ("javascript", "let a = 1;\nlet b = 2;\n", 0, 0, "\u{feff}"),
  ("typescript", "\u{feff}\u{feff}let a: number = 1;\n", 0, 3, ""),
];

/// witness of the residual difference that is tree-sitter's own (incremental re-use of the keyword
/// token `elif` where a fresh parse reads a command name); independent of the double edit
const RESIDUAL: &[(&str, &str, usize, usize, &str)] = &[
  // `elif` (keyword) becomes a command name
  ("bash", "if [ 1 ]; then\n  echo 1\nelif [[ 1 ]]; then\n  foo\nfi\n", 3, 14, ""),
  // `else` (keyword) becomes the type name of `else if (a) { h(); }` read as a function definition
  ("c", "void f(int a) {\n  if (a) { g(); } else if (a) { h(); }\n}\n", 25, 0, "{ g(); } "),
  // `x * x + y * y` re-parsed as `x * x(+y * y)`: a grammar conflict of tree-sitter-elixir settled differently
  (
    "elixir",
    "type h | _\ndefmodule Demo.Point do\n  @type t :: %__MODULE__{x: integer, y: integer}\n  def new(x, y \\\\ 2), do: %__MODULE__{x: x, y: y}\n  def norm(%__MODULE__{x: x, y: y}) when x > 0 do\n    :math.sqrt(x * x + y * y)\n  end\n    Enum.each(items, fn it -> IO.puts(\"t#{it}\") end) # trailing\n    items |> Enum.map(&(&1 * 2)) |> Enum.sum()\nend",
    5,
    5,
    "x * x + y * y",
  ),
];

/// all leaves `(start, end, named, alphabetic text)` of a fresh parse
fn leaves(lang: SupportLang, text: &str) -> Vec<(usize, usize, bool)> {
  let sg = lang.ast_grep(text);
  let mut out = vec![];
  let mut stack = vec![sg.root()];
  while let Some(n) = stack.pop() {
    if n.is_leaf() {
      let r = n.range();
      out.push((r.start, r.end, n.is_named()));
    }
    stack.extend(n.children());
  }
  out
}

/// Input class "the edit re-classifies an untouched keyword": a token outside the edited range that is an
/// anonymous word-like token (a keyword: `elif`, `else`, ...) in the fresh parse of the OLD text and, at
/// its shifted position, a named leaf (a plain word / identifier) in the fresh parse of the NEW text.
/// Computed from the two texts alone.
fn reclassified_keyword(lang: SupportLang, before: &str, st: &Step, after: &str) -> Option<String> {
  let new_leaves: std::collections::HashMap<(usize, usize), bool> = leaves(lang, after).into_iter().map(|(s, e, n)| ((s, e), n)).collect();
  let (lo, hi) = (st.position, st.position + st.deleted);
  for (s, e, named) in leaves(lang, before) {
    // (offsets come from a parse made by the code under test: never slice with them unchecked)
    let Some(word) = before.get(s..e) else { continue };
    if named || e <= s || !word.chars().all(|c| c.is_alphabetic()) {
      continue;
    }
    let (ns, ne) = if e <= lo {
      (s, e)
    } else if s >= hi {
      (s + st.inserted.len() - st.deleted, e + st.inserted.len() - st.deleted)
    } else {
      continue;
    };
    if new_leaves.get(&(ns, ne)) == Some(&true) {
      return Some(word.to_string());
    }
  }
  None
}

/// the fingerprint of a tree-clause failure, from the INPUT: the sign of the length change, or the
/// keyword re-classification class
fn tree_fp(lang: SupportLang, before: &str, st: &Step, after: &str) -> String {
  if reclassified_keyword(lang, before, st, after).is_some() {
    return "edited tree differs from fresh parse: the edit turns an untouched keyword token into a plain name".into();
  }
  // tree-sitter-elixir resolves `name + name` (binary operator vs call without parentheses) by a
  // grammar conflict; the incremental parse can settle it the other way
  if lang == SupportLang::Elixir && regex::Regex::new(r"[A-Za-z_]\w* [+-] [A-Za-z_(]").unwrap().is_match(&st.inserted) {
    return "edited tree differs from fresh parse: elixir, inserted text with `name + name` (operator / call-without-parentheses conflict)".into();
  }
  format!("edited tree differs from fresh parse: {} edit", delta_class(st))
}

fn history_args(b_dir: &str, text: &str, steps: &[Step]) -> Value {
  json!({"lang": b_dir, "text": text, "steps": steps.iter().map(step_json).collect::<Vec<_>>()})
}

/// unit `editdoc`
pub fn editdoc(ctx: &Ctx, rng: &mut Rng, o: &mut Out) {
  let bases = bases();
  let mut text_cases = 0usize;
  let mut tree_cases = 0usize;
  let mut tree_fail = 0usize;

  // 0. the witnesses (a failing one is reported like any generated failure)
  for (dir, text, pos, del, ins) in WITNESSES.iter().chain(RESIDUAL.iter()) {
    let lang = corpus::lang_of_dir(dir).unwrap();
    let st = Step { api: Api::Edit, class: "witness", position: *pos, deleted: *del, inserted: ins.to_string() };
    let a = history_args(dir, text, std::slice::from_ref(&st));
    let r = do_history(&a);
    o.op("c10_history", a.clone(), r);
    let mut sg = lang.ast_grep(*text);
    let new_text = reference_splice(text, *pos, *del, ins).unwrap();
    if !parses_clean(text, lang) || !parses_clean(&new_text, lang) || apply(&mut sg, &st).is_err() {
      o.oracle("c10_tree", false, json!({"fp": "witness outside the quantifier", "input": a}));
      continue;
    }
    text_cases += 1;
    if std::str::from_utf8(sg.source().as_bytes()).is_err() {
      o.oracle("c10_text", false, json!({"fp": "text is not valid UTF-8 after an edit: witness", "input": a, "want": new_text}));
      continue;
    }
    if sg.source() != new_text {
      o.oracle("c10_text", false, json!({"fp": "text is not the splice: witness", "input": a, "got": sg.source(), "want": new_text}));
    }
    tree_cases += 1;
    if let Err(d) = tree_verdict(&sg, lang) {
      tree_fail += 1;
      o.oracle(
        "c10_tree",
        false,
        json!({"fp": tree_fp(lang, text, &st, &new_text), "class": "witness", "input": a, "observed": d}),
      );
    }
  }

  // 1. histories
  let n = if ctx.thorough { 45_000 } else { 3_000 };
  let mut per_lang = std::collections::BTreeMap::<String, usize>::new();
  let mut produced = 0usize;
  let mut attempts = 0usize;
  while produced < n && attempts < n * 4 {
    attempts += 1;
    let b = &bases[(attempts - 1) % bases.len()];
    // larger documents emphasised: 2/3 of the histories run on 5-20 KB
    let target = if rng.chance(2, 3) && !b.more.is_empty() { 5_000 + rng.below(15_000) } else { b.unit.len() + rng.below(2_500) };
    let mut text0 = build_text(b, target);
    // now and then a document that starts with a byte order mark (kept only where the grammar takes it)
    if rng.chance(1, 12) {
      text0.insert(0, '\u{feff}');
    }
    let mut sg = b.lang.ast_grep(&text0);
    let mut nodes = dfs(&sg.root());
    if !clean(&nodes) {
      continue;
    }
    let len = 1 + rng.below(6);
    let mut steps: Vec<Step> = vec![];
    let mut failed: Option<Value> = None;
    let mut model_text = text0.clone();
    let mut recs: Vec<Value> = vec![];
    for _ in 0..len {
      // a candidate whose result parses without ERROR / MISSING (the property's quantifier)
      let mut chosen = None;
      for _ in 0..12 {
        let Some(st) = candidate(rng, b, &sg, &nodes) else { continue };
        let Some(new_text) = reference_splice(sg.source(), st.position, st.deleted, &st.inserted) else { continue };
        if new_text == sg.source() || new_text.len() > 40_000 {
          continue;
        }
        let fresh = dfs(&b.lang.ast_grep(&new_text).root());
        if clean(&fresh) {
          chosen = Some((st, new_text, fresh));
          break;
        }
      }
      let Some((st, new_text, fresh)) = chosen else { break };
      // the InputEdit of the real `accept_edit` on a copy of the current text
      let mut copy = sg.source().to_string();
      let e = Edit::<String> { position: st.position, deleted_length: st.deleted, inserted_text: st.inserted.as_bytes().to_vec() };
      let ie = guard(|| json!(hooks::accept_edit_string(&mut copy, &e)));
      if let Err(e) = apply(&mut sg, &st) {
        // an in-range edit must not fail
        failed = Some(json!({"fp": format!("edit fails: {e}"), "input": history_args(&b.dir, &text0, &steps), "step": step_json(&st)}));
        break;
      }
      steps.push(st.clone());
      if std::str::from_utf8(sg.source().as_bytes()).is_err() {
        failed = Some(json!({"fp": format!("text is not valid UTF-8 after an edit: {}", st.class), "input": history_args(&b.dir, &text0, &steps),
          "want": new_text, "got": String::from_utf8_lossy(sg.source().as_bytes())}));
        break;
      }
      model_text = new_text;
      let mut rec: Vec<Value> = ie.as_array().cloned().unwrap_or_default();
      rec.push(json!(sg.source().len()));
      rec.push(json!(fnv(sg.source().as_bytes())));
      recs.push(Value::Array(rec));
      // text clause
      text_cases += 1;
      if sg.source() != model_text {
        o.oracle("c10_text", false, json!({"fp": format!("text is not the splice: {}", st.class), "input": history_args(&b.dir, &text0, &steps)}));
      }
      // tree clause
      tree_cases += 1;
      let verdict = tree_verdict_with(&sg, b.lang, Some(fresh));
      if let Err(d) = &verdict {
        tree_fail += 1;
        // does the last edit alone, on a freshly parsed document, show it?
        let before = reference_unsplice(&steps, &text0);
        let mut single = b.lang.ast_grep(&before);
        let single_repro = apply(&mut single, &st).is_ok() && tree_verdict(&single, b.lang).is_err();
        failed = Some(json!({
          "fp": tree_fp(b.lang, &before, &st, sg.source()),
          "class": st.class, "lang": b.dir, "doc_bytes": text0.len(), "failing_step": steps.len(),
          "last_edit_alone_reproduces": single_repro,
          "input": history_args(&b.dir, &text0, &steps), "observed": d}));
        break;
      }
      nodes = verdict.unwrap();
    }
    if steps.is_empty() {
      continue;
    }
    produced += 1;
    *per_lang.entry(b.dir.clone()).or_default() += 1;
    let a = history_args(&b.dir, &text0, &steps);
    // every 16th history is additionally replayed from its record (`exec` path = recorded path)
    let r = json!({"steps": recs, "text": String::from_utf8_lossy(sg.source().as_bytes())});
    if produced % 16 == 0 && do_history(&a) != r {
      o.oracle("c10_text", false, json!({"fp": "replay of a recorded history differs from the recorded run", "input": a}));
    }
    o.op("c10_history", a, r);
    if let Some(f) = failed {
      let fps = f["fp"].as_str().unwrap_or("");
      let name = if fps.starts_with("edit fails") || fps.starts_with("text is not") { "c10_text" } else { "c10_tree" };
      o.oracle(name, false, f);
    }
  }
  o.oracle("c10_text", true, json!({"cases": text_cases}));
  o.oracle("c10_tree", true, json!({"cases": tree_cases - tree_fail, "histories": produced, "per_lang": per_lang}));

  // 1b. the search clause: later searches on the edited document see what a fresh parse would
  // see — also for node kinds the document did not contain when it was searched before the edit.
  // A top-level item that owns a node kind no other item of the file has is cut out, the shortened
  // document is searched (whatever is remembered per document is remembered now), the item is put
  // back with `edit`, and every search is compared with the same search on a fresh parse.
  let mut search_cases = 0usize;
  let mut search_docs = 0usize;
  let per_base = if ctx.thorough { 12 } else { 3 };
  for b in &bases {
    let unit_sg = b.lang.ast_grep(&b.unit);
    let tops: Vec<Node<SDoc>> = unit_sg.root().children().filter(|c| c.is_named() && c.range().len() > 0).collect();
    if tops.len() < 2 {
      continue;
    }
    let kinds_of = |n: &Node<SDoc>| -> std::collections::BTreeSet<u16> { n.dfs().filter(|d| d.is_named()).map(|d| d.kind_id()).collect() };
    let all: Vec<std::collections::BTreeSet<u16>> = tops.iter().map(kinds_of).collect();
    let mut order: Vec<usize> = (0..tops.len()).collect();
    for i in (1..order.len()).rev() {
      order.swap(i, rng.below(i + 1));
    }
    let mut done = 0usize;
    for &i in &order {
      if done >= per_base {
        break;
      }
      let unique: Vec<u16> = all[i].iter().copied().filter(|k| all.iter().enumerate().all(|(j, s)| j == i || !s.contains(k))).collect();
      if unique.is_empty() {
        continue;
      }
      let start = tops[i].range().start;
      let end = if i + 1 < tops.len() { tops[i + 1].range().start } else { tops[i].range().end };
      let item = b.unit[start..end].to_string();
      let removed = format!("{}{}", &b.unit[..start], &b.unit[end..]);
      let mut sg = b.lang.ast_grep(&removed);
      if !clean(&dfs(&sg.root())) || sg.root().dfs().any(|d| unique.contains(&d.kind_id())) {
        continue;
      }
      done += 1;
      search_docs += 1;
      // a small single-line node of an introduced kind, as a pattern
      let probe: Option<String> = tops[i]
        .dfs()
        .filter(|d| unique.contains(&d.kind_id()) && d.range().len() <= 80 && !d.text().contains('\n'))
        .map(|d| d.text().to_string())
        .next();
      let pat = probe.as_ref().and_then(|t| Pattern::try_new(t, b.lang).ok());
      // searches before the edit: kinds that are absent, a kind that is present, the pattern, a rewrite attempt
      for k in unique.iter().take(4) {
        let _ = sg.root().find_all(KindMatcher::from_id(*k)).count();
        let _ = sg.root().find(KindMatcher::from_id(*k)).is_some();
      }
      let _ = sg.root().find_all(KindMatcher::from_id(tops[(i + 1) % tops.len()].kind_id())).count();
      if let Some(p) = &pat {
        let _ = sg.root().find_all(p).count();
        let _ = sg.root().replace(p, "x").is_some();
      }
      let e = Edit::<String> { position: start, deleted_length: 0, inserted_text: item.as_bytes().to_vec() };
      if sg.edit(e).is_err() || sg.source() != b.unit {
        o.oracle("c10_text", false, json!({"fp": "putting a top-level item back does not give the original text", "input": {"lang": b.dir, "item": item, "pos": start}}));
        continue;
      }
      let fresh = b.lang.ast_grep(&b.unit);
      let ranges = |g: &Sg, k: u16| -> Vec<(usize, usize)> { g.root().find_all(KindMatcher::from_id(k)).map(|m| (m.range().start, m.range().end)).collect() };
      let mut ks: Vec<u16> = unique.clone();
      ks.extend(all[i].iter().copied().filter(|k| !unique.contains(k)).take(24));
      let mut bad: Option<Value> = None;
      for k in ks {
        search_cases += 1;
        let (a, f) = (ranges(&sg, k), ranges(&fresh, k));
        let first = sg.root().find(KindMatcher::from_id(k)).map(|m| m.range().start);
        if a != f || first != f.first().map(|r| r.0) {
          let introduced = unique.contains(&k);
          bad = Some(json!({"fp": format!("search on the edited document differs from a fresh parse: kind search, introduced={introduced}"),
            "input": {"lang": b.dir, "text": removed, "steps": [{"api": ["edit"], "pos": start, "del": 0, "ins": item}]},
            "kind": k, "edited": a.len(), "fresh": f.len()}));
          break;
        }
      }
      if let (None, Some(p)) = (&bad, &pat) {
        search_cases += 1;
        let a: Vec<(usize, usize)> = sg.root().find_all(p).map(|m| (m.range().start, m.range().end)).collect();
        let f: Vec<(usize, usize)> = fresh.root().find_all(p).map(|m| (m.range().start, m.range().end)).collect();
        if a != f {
          bad = Some(json!({"fp": "search on the edited document differs from a fresh parse: pattern search",
            "input": {"lang": b.dir, "text": removed, "steps": [{"api": ["edit"], "pos": start, "del": 0, "ins": item}]},
            "pattern": probe, "edited": a.len(), "fresh": f.len()}));
        }
      }
      if let Some(f) = bad {
        o.oracle("c10_search", false, f);
      }
    }
  }
  o.oracle("c10_search", true, json!({"cases": search_cases, "documents": search_docs}));

  // 1c. the first multi-byte text an edit brings into a document that was pure ASCII when it was
  // parsed (whatever was decided about the text at parse time must be decided again): a comment
  // with multi-byte characters in front of an item that has more nodes on its line
  let mut ascii_docs = 0usize;
  for b in &bases {
    if !b.unit.is_ascii() {
      continue;
    }
    let (open, close) = comment_syntax(&b.dir);
    let mut sg = b.lang.ast_grep(&b.unit);
    let tops: Vec<(usize, usize)> = sg.root().children().filter(|c| c.is_named() && c.range().len() > 0).map(|c| (c.range().start, c.range().end)).collect();
    let Some(&(pos, _)) = tops.iter().find(|(s, e)| !b.unit[*s..*e].contains('\n') || b.unit[*s..*e].lines().next().map(|l| l.len() > 3).unwrap_or(false)) else { continue };
    // line comments end their line: put them on a line of their own only when there is no closer
    let ins = if close.is_empty() { format!("{open}h\u{e9}llo \u{2192} \u{1d4b3}\n") } else { format!("{open}h\u{e9}llo \u{2192} \u{1d4b3}{close}") };
    let Some(new_text) = reference_splice(&b.unit, pos, 0, &ins) else { continue };
    let fresh = dfs(&b.lang.ast_grep(&new_text).root());
    if !clean(&fresh) {
      continue;
    }
    ascii_docs += 1;
    let _ = dfs(&sg.root());
    let e = Edit::<String> { position: pos, deleted_length: 0, inserted_text: ins.as_bytes().to_vec() };
    if sg.edit(e).is_err() || sg.source() != new_text {
      o.oracle("c10_text", false, json!({"fp": "inserting a multi-byte comment does not give the spliced text", "input": {"lang": b.dir, "pos": pos, "ins": ins}}));
      continue;
    }
    if let Err(d) = tree_verdict_with(&sg, b.lang, Some(fresh)) {
      o.oracle("c10_tree", false, json!({"fp": "edited tree differs from fresh parse: first multi-byte text in an ASCII document", "class": "insert",
        "lang": b.dir, "input": history_args(&b.dir, &b.unit, &[Step { api: Api::Edit, class: "ascii-to-multibyte", position: pos, deleted: 0, inserted: ins.clone() }]), "observed": d}));
    }
  }
  o.oracle("c10_ascii_to_multibyte", true, json!({"cases": ascii_docs}));

  // 2. function level: `accept_edit` and `position_for_offset` on small texts, out-of-range included
  let m = if ctx.thorough { 40_000 } else { 4_000 };
  let pieces = ["a", "bc", "\n", "\n\n", "é", "中", "𝒳", " ", "\r\n", "x = 1", ""];
  for _ in 0..m {
    let mut text = String::new();
    for _ in 0..rng.below(8) {
      text.push_str(*rng.pick(&pieces));
    }
    let bounds: Vec<usize> = (0..=text.len()).filter(|i| text.is_char_boundary(*i)).collect();
    let pos = if rng.chance(1, 12) { text.len() + 1 + rng.below(3) } else { bounds[rng.below(bounds.len())] };
    let del = if rng.chance(1, 8) {
      rng.below(text.len() + 4)
    } else {
      let later: Vec<usize> = bounds.iter().copied().filter(|b| *b >= pos).collect();
      if later.is_empty() { 0 } else { later[rng.below(later.len())] - pos }
    };
    // the String must stay valid UTF-8: out-of-range is fine (it panics before touching the text)
    if pos + del <= text.len() && !(text.is_char_boundary(pos) && text.is_char_boundary(pos + del)) {
      continue;
    }
    let mut ins = String::new();
    for _ in 0..rng.below(4) {
      ins.push_str(*rng.pick(&pieces));
    }
    let a = json!({"text": text, "pos": pos, "del": del, "ins": ins});
    let r = do_accept_edit(&a);
    o.op("c10_accept_edit", a, r);
    let off = rng.below(text.len() + 3);
    let a = json!({"text": text, "off": off});
    let r = do_pos(&a);
    o.op("c10_pos", a, r);
  }
}

/// the text before the last step of a history
fn reference_unsplice(steps: &[Step], text0: &str) -> String {
  let mut t = text0.to_string();
  for st in &steps[..steps.len() - 1] {
    t = reference_splice(&t, st.position, st.deleted, &st.inserted).expect("recorded step is in range");
  }
  t
}

fn do_accept_edit(a: &Value) -> Value {
  let mut text = a["text"].as_str().unwrap().to_string();
  let e = Edit::<String> {
    position: a["pos"].as_u64().unwrap() as usize,
    deleted_length: a["del"].as_u64().unwrap() as usize,
    inserted_text: a["ins"].as_str().unwrap().as_bytes().to_vec(),
  };
  guard(|| {
    let ie = hooks::accept_edit_string(&mut text, &e);
    // (the code under test splices the bytes of the `String` unchecked: never serialise it unchecked)
    match std::str::from_utf8(text.as_bytes()) {
      Ok(t) => json!({"text": t, "ie": ie}),
      Err(_) => json!({"text": "invalid-utf8", "lossy": String::from_utf8_lossy(text.as_bytes()), "ie": ie}),
    }
  })
}

fn do_pos(a: &Value) -> Value {
  let text = a["text"].as_str().unwrap();
  let off = a["off"].as_u64().unwrap() as usize;
  guard(|| {
    let (r, c) = hooks::position_for_offset(text.as_bytes(), off);
    json!([r, c])
  })
}

// ------------------------------------------------------------------------------------------
// unit `edittree`: the real `tree.edit` (once, twice) vs the model's `editTree`
// ------------------------------------------------------------------------------------------

fn ranges_json(v: &[(u16, u32, u32)]) -> Value {
  Value::Array(v.iter().map(|(_, s, e)| json!([s, e])).collect())
}

fn do_edit_tree(a: &Value) -> Value {
  let lang = corpus::lang_of_dir(a["lang"].as_str().unwrap_or("")).expect("lang");
  let sg = lang.ast_grep(a["text"].as_str().unwrap());
  let e = Edit::<String> {
    position: a["pos"].as_u64().unwrap() as usize,
    deleted_length: a["del"].as_u64().unwrap() as usize,
    inserted_text: a["ins"].as_str().unwrap().as_bytes().to_vec(),
  };
  guard(|| {
    let (doc, tr) = hooks::trace_edit(&sg.inner, &e);
    json!({"text": doc.get_source().as_str(), "ie": tr.input_edit, "once": ranges_json(&tr.once), "twice": ranges_json(&tr.twice)})
  })
}

pub fn edittree(ctx: &Ctx, rng: &mut Rng, o: &mut Out) {
  let bases = bases();
  let n = if ctx.thorough { 8_000 } else { 600 };
  let pieces = ["x", "foo", " ", "\n", "\n\n  ", "é", "中", "(", ";", "1 + 2", ""];
  let mut shape_cases = 0usize;
  // the witness trees first
  // (the witness edit itself: `AGV.C10.doEdit_counterexample` lists these ranges)
  let mut inputs: Vec<(String, String, Option<(usize, usize, String)>)> =
    WITNESSES.iter().map(|w| (w.0.to_string(), w.1.to_string(), Some((w.2, w.3, w.4.to_string())))).collect();
  for k in 0..n {
    let b = &bases[k % bases.len()];
    // small documents: the whole (or a prefix of lines of the) corpus file
    let lines: Vec<&str> = b.unit.split_inclusive('\n').collect();
    let keep = 1 + rng.below(lines.len());
    inputs.push((b.dir.clone(), lines[..keep].concat(), None));
  }
  for (dir, text, fixed) in inputs {
    let lang = corpus::lang_of_dir(&dir).unwrap();
    let sg = lang.ast_grep(&text);
    let (tree, _) = treedump::dump(&sg.root());
    let nodes = dfs(&sg.root());
    let bounds: Vec<usize> = (0..=text.len()).filter(|i| text.is_char_boundary(*i)).collect();
    // positions: node boundaries half of the time (the interesting cases of the position rule)
    let pick_pos = |rng: &mut Rng| -> usize {
      if rng.chance(1, 2) {
        let x = &nodes[rng.below(nodes.len())];
        if rng.chance(1, 2) { x.start } else { x.end }
      } else {
        bounds[rng.below(bounds.len())]
      }
    };
    let (p, q) = (pick_pos(rng), pick_pos(rng));
    let (pos, end) = (p.min(q), p.max(q));
    let del = match rng.below(4) {
      0 => 0,
      1 => (end - pos).min(3),
      _ => end - pos,
    };
    if !text.is_char_boundary(pos + del) {
      continue;
    }
    let mut ins = String::new();
    for _ in 0..rng.below(4) {
      ins.push_str(*rng.pick(&pieces));
    }
    if rng.chance(1, 6) {
      // length-preserving
      ins = "y".repeat(del);
    }
    let (pos, del, ins) = fixed.unwrap_or((pos, del, ins));
    let a = json!({"lang": dir, "text": text, "tree": tree, "pos": pos, "del": del, "ins": ins});
    let r = do_edit_tree(&a);
    // `tree.edit` never changes the shape: both dumps have one entry per node of the parsed tree
    shape_cases += 1;
    let same_shape = r["once"].as_array().map(|v| v.len()) == Some(nodes.len()) && r["twice"].as_array().map(|v| v.len()) == Some(nodes.len());
    if !same_shape {
      o.oracle("c10_edit_shape", false, json!({"fp": "tree.edit changed the number of nodes", "input": {"lang": dir, "text": text, "pos": pos, "del": del, "ins": ins}}));
    }
    o.op("c10_edit_tree", a, r);
  }
  o.oracle("c10_edit_shape", true, json!({"cases": shape_cases}));
}

pub fn exec(op: &str, a: &Value) -> Option<Value> {
  Some(match op {
    "c10_history" => do_history(a),
    "c10_accept_edit" => do_accept_edit(a),
    "c10_pos" => do_pos(a),
    "c10_edit_tree" => do_edit_tree(a),
    "c10_tree_check" => do_tree_check(a),
    _ => return None,
  })
}
