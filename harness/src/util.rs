//! shared helpers: PRNG, op writer, panic capture
use serde_json::{json, Value};
use std::io::Write;
use std::panic::{catch_unwind, AssertUnwindSafe};

/// SplitMix64: every random choice of the harness derives from one of these.
#[derive(Clone)]
pub struct Rng(pub u64);
impl Rng {
  pub fn new(seed: u64) -> Self {
    Rng(seed ^ 0x9E37_79B9_7F4A_7C15)
  }
  pub fn next(&mut self) -> u64 {
    self.0 = self.0.wrapping_add(0x9E37_79B9_7F4A_7C15);
    let mut z = self.0;
    z = (z ^ (z >> 30)).wrapping_mul(0xBF58_476D_1CE4_E5B9);
    z = (z ^ (z >> 27)).wrapping_mul(0x94D0_49BB_1331_11EB);
    z ^ (z >> 31)
  }
  pub fn below(&mut self, n: usize) -> usize {
    if n == 0 {
      0
    } else {
      (self.next() % n as u64) as usize
    }
  }
  pub fn range(&mut self, lo: i64, hi: i64) -> i64 {
    lo + (self.next() % ((hi - lo + 1) as u64)) as i64
  }
  pub fn chance(&mut self, num: usize, den: usize) -> bool {
    self.below(den) < num
  }
  pub fn pick<'a, T>(&mut self, xs: &'a [T]) -> &'a T {
    &xs[self.below(xs.len())]
  }
  pub fn fork(&mut self) -> Rng {
    Rng(self.next())
  }
}

pub struct Out {
  w: std::io::BufWriter<Box<dyn Write>>,
  pub n: usize,
  /// self-test: corrupt the implementation result of the op with this index (AGV_PLANT=<n>)
  plant: Option<usize>,
}
impl Out {
  pub fn new(path: Option<&str>) -> Self {
    let inner: Box<dyn Write> = match path {
      Some(p) => Box::new(std::fs::File::create(p).expect("create out")),
      None => Box::new(std::io::stdout()),
    };
    Out {
      w: std::io::BufWriter::with_capacity(1 << 20, inner),
      n: 0,
      plant: std::env::var("AGV_PLANT").ok().and_then(|v| v.parse().ok()),
    }
  }
  /// one op: `{"op": name, "a": args, "r": impl_result}`
  pub fn op(&mut self, name: &str, args: Value, result: Value) {
    let result = if self.plant == Some(self.n) && !name.starts_with("info:") && name != "tree" {
      json!({"planted-by-selftest": result})
    } else {
      if self.plant == Some(self.n) {
        self.plant = Some(self.n + 1); // skip ops that are not judged
      }
      result
    };
    let v = json!({"op": name, "a": args, "r": result});
    serde_json::to_writer(&mut self.w, &v).unwrap();
    self.w.write_all(b"\n").unwrap();
    self.n += 1;
  }
  /// a property-oracle verdict evaluated on the implementation alone
  pub fn oracle(&mut self, name: &str, ok: bool, detail: Value) {
    let v = json!({"op": "oracle", "name": name, "ok": ok, "detail": detail});
    serde_json::to_writer(&mut self.w, &v).unwrap();
    self.w.write_all(b"\n").unwrap();
    self.n += 1;
  }
  pub fn raw(&mut self, v: &Value) {
    serde_json::to_writer(&mut self.w, v).unwrap();
    self.w.write_all(b"\n").unwrap();
    self.n += 1;
  }
  pub fn finish(mut self) {
    self.w.flush().unwrap();
  }
}

pub static LAST_PANIC: std::sync::Mutex<String> = std::sync::Mutex::new(String::new());

/// panics of the code under test are outcomes (`guard`): nothing is printed, the place and message of
/// the last one are kept so that an UNGUARDED panic (a defect of the harness, or an input from the
/// code under test that the harness trusted) can be named when it ends the run
pub fn silence_panics() {
  std::panic::set_hook(Box::new(|info| {
    let loc = info.location().map(|l| format!("{}:{}", l.file(), l.line())).unwrap_or_default();
    let msg = if let Some(s) = info.payload().downcast_ref::<&str>() {
      s.to_string()
    } else if let Some(s) = info.payload().downcast_ref::<String>() {
      s.clone()
    } else {
      String::new()
    };
    if let Ok(mut g) = LAST_PANIC.lock() {
      *g = format!("{loc}: {}", msg.chars().take(200).collect::<String>());
    }
  }));
}

/// run `f`; a panic becomes the JSON string "panic"
pub fn guard(f: impl FnOnce() -> Value) -> Value {
  match catch_unwind(AssertUnwindSafe(f)) {
    Ok(v) => v,
    Err(_) => json!("panic"),
  }
}

/// all strings over `alphabet` of length 0..=max_len
pub fn all_strings(alphabet: &[char], max_len: usize) -> Vec<String> {
  let mut out = vec![String::new()];
  let mut frontier = vec![String::new()];
  for _ in 0..max_len {
    let mut next = Vec::with_capacity(frontier.len() * alphabet.len());
    for s in &frontier {
      for c in alphabet {
        let mut t = s.clone();
        t.push(*c);
        next.push(t);
      }
    }
    out.extend(next.iter().cloned());
    frontier = next;
  }
  out
}
