//! structural dump of a real `Rule` / `RuleCore` (through the verif hooks) as data for the model
use crate::treedump::dump_pattern;
use ast_grep_config::verif_hooks::StopBy;
use ast_grep_config::{Rule, RuleCore};
use ast_grep_core::{MatchStrictness, Matcher};
use ast_grep_language::SupportLang;
use serde_json::{json, Value};

type L = SupportLang;

pub fn strictness_name(s: &MatchStrictness) -> &'static str {
  match s {
    MatchStrictness::Cst => "cst",
    MatchStrictness::Smart => "smart",
    MatchStrictness::Ast => "ast",
    MatchStrictness::Relaxed => "relaxed",
    MatchStrictness::Signature => "signature",
  }
}

pub fn kinds_json(k: Option<bit_set::BitSet>) -> Value {
  match k {
    None => Value::Null,
    Some(b) => json!(b.iter().collect::<Vec<usize>>()),
  }
}

#[derive(Default)]
pub struct Regexes(pub Vec<String>);
impl Regexes {
  fn id(&mut self, s: &str) -> usize {
    if let Some(i) = self.0.iter().position(|x| x == s) {
      return i;
    }
    self.0.push(s.to_string());
    self.0.len() - 1
  }
}

fn stop_json(s: &StopBy<L>, rx: &mut Regexes) -> Value {
  match s {
    StopBy::Neighbor => json!("neighbor"),
    StopBy::End => json!("end"),
    StopBy::Rule(r) => json!(["rule", dump_rule(r, rx)]),
  }
}

pub fn dump_rule(r: &Rule<L>, rx: &mut Regexes) -> Value {
  match r {
    Rule::Pattern(p) => json!(["pattern", dump_pattern(&p.node), p.verif_root_kind(), strictness_name(&p.strictness)]),
    Rule::Kind(k) => {
      let ks = k.potential_kinds().expect("kind matcher has kinds");
      json!(["kind", ks.iter().next().expect("one kind")])
    }
    Rule::Regex(re) => json!(["regex", rx.id(re.verif_regex_str())]),
    Rule::NthChild(n) => {
      let (step, offset, of_rule, reverse) = n.verif_parts();
      json!(["nth", step, offset, of_rule.map(|r| dump_rule(r, rx)), reverse])
    }
    Rule::Range(rg) => {
      let (a, b, c, d) = rg.verif_parts();
      json!(["range", a, b, c, d])
    }
    Rule::Inside(i) => {
      let (r, s, f) = i.verif_parts();
      json!(["inside", dump_rule(r, rx), stop_json(s, rx), f])
    }
    Rule::Has(i) => {
      let (r, s, f) = i.verif_parts();
      json!(["has", dump_rule(r, rx), stop_json(s, rx), f])
    }
    Rule::Precedes(i) => {
      let (r, s) = i.verif_parts();
      json!(["precedes", dump_rule(r, rx), stop_json(s, rx)])
    }
    Rule::Follows(i) => {
      let (r, s) = i.verif_parts();
      json!(["follows", dump_rule(r, rx), stop_json(s, rx)])
    }
    Rule::All(a) => json!(["all", a.inner().iter().map(|x| dump_rule(x, rx)).collect::<Vec<_>>(), kinds_json(a.potential_kinds())]),
    Rule::Any(a) => json!(["any", a.inner().iter().map(|x| dump_rule(x, rx)).collect::<Vec<_>>(), kinds_json(a.potential_kinds())]),
    Rule::Not(n) => json!(["not", dump_rule(n.inner(), rx)]),
    Rule::Matches(m) => json!(["matches", m.verif_rule_id()]),
  }
}

/// `{"rule", "constraints": {var: rule}, "kinds", "locals": {id: rule}, "globals": {id: core}}`
pub fn dump_core(c: &RuleCore<L>, rx: &mut Regexes, with_registry: bool) -> Value {
  let (rule, constraints, kinds, reg) = c.verif_parts();
  let mut cons = serde_json::Map::new();
  let mut keys: Vec<&String> = constraints.keys().collect();
  keys.sort();
  for k in keys {
    cons.insert(k.clone(), dump_rule(&constraints[k], rx));
  }
  let mut v = json!({"rule": dump_rule(rule, rx), "constraints": cons, "kinds": kinds_json(kinds.clone())});
  if with_registry {
    let mut locals = serde_json::Map::new();
    let mut lk: Vec<&String> = reg.verif_locals().keys().collect();
    lk.sort();
    for k in lk {
      locals.insert(k.clone(), dump_rule(&reg.verif_locals()[k], rx));
    }
    let mut globals = serde_json::Map::new();
    let mut gk: Vec<&String> = reg.verif_globals().keys().collect();
    gk.sort();
    for k in gk {
      globals.insert(k.clone(), dump_core(&reg.verif_globals()[k], rx, false));
    }
    v["locals"] = Value::Object(locals);
    v["globals"] = Value::Object(globals);
  }
  v
}
