//! structural dump of a real `Rule` / `RuleCore` (through the verif hooks) as data for the model
use crate::treedump::dump_pattern;
use ast_grep_config::verif_hooks::StopBy;
use ast_grep_config::{Rule, RuleCore};
use ast_grep_core::{MatchStrictness, Matcher};
use ast_grep_language::SupportLang;
use serde_json::{json, Value};

type L = SupportLang;

pub fn strictness_name(s: &MatchStrictness) -> &'static str {
  match s {
    MatchStrictness::Cst => "cst",
    MatchStrictness::Smart => "smart",
    MatchStrictness::Ast => "ast",
    MatchStrictness::Relaxed => "relaxed",
    MatchStrictness::Signature => "signature",
  }
}

pub fn kinds_json(k: Option<bit_set::BitSet>) -> Value {
  match k {
    None => Value::Null,
    Some(b) => json!(b.iter().collect::<Vec<usize>>()),
  }
}

#[derive(Default)]
pub struct Regexes(pub Vec<String>);
impl Regexes {
  fn id(&mut self, s: &str) -> usize {
    if let Some(i) = self.0.iter().position(|x| x == s) {
      return i;
    }
    self.0.push(s.to_string());
    self.0.len() - 1
  }
}

fn stop_json(s: &StopBy<L>, rx: &mut Regexes) -> Value {
  match s {
    StopBy::Neighbor => json!("neighbor"),
    StopBy::End => json!("end"),
    StopBy::Rule(r) => json!(["rule", dump_rule(r, rx)]),
  }
}

pub fn dump_rule(r: &Rule<L>, rx: &mut Regexes) -> Value {
  match r {
    Rule::Pattern(p) => json!(["pattern", dump_pattern(&p.node), p.verif_root_kind(), strictness_name(&p.strictness)]),
    Rule::Kind(k) => {
      let ks = k.potential_kinds().expect("kind matcher has kinds");
      json!(["kind", ks.iter().next().expect("one kind")])
    }
    Rule::Regex(re) => json!(["regex", rx.id(re.verif_regex_str())]),
    Rule::NthChild(n) => {
      let (step, offset, of_rule, reverse) = n.verif_parts();
      json!(["nth", step, offset, of_rule.map(|r| dump_rule(r, rx)), reverse])
    }
    Rule::Range(rg) => {
      let (a, b, c, d) = rg.verif_parts();
      json!(["range", a, b, c, d])
    }
    Rule::Inside(i) => {
      let (r, s, f) = i.verif_parts();
      json!(["inside", dump_rule(r, rx), stop_json(s, rx), f])
    }
    Rule::Has(i) => {
      let (r, s, f) = i.verif_parts();
      json!(["has", dump_rule(r, rx), stop_json(s, rx), f])
    }
    Rule::Precedes(i) => {
      let (r, s) = i.verif_parts();
      json!(["precedes", dump_rule(r, rx), stop_json(s, rx)])
    }
    Rule::Follows(i) => {
      let (r, s) = i.verif_parts();
      json!(["follows", dump_rule(r, rx), stop_json(s, rx)])
    }
    Rule::All(a) => json!(["all", a.inner().iter().map(|x| dump_rule(x, rx)).collect::<Vec<_>>(), kinds_json(a.potential_kinds())]),
    Rule::Any(a) => json!(["any", a.inner().iter().map(|x| dump_rule(x, rx)).collect::<Vec<_>>(), kinds_json(a.potential_kinds())]),
    Rule::Not(n) => json!(["not", dump_rule(n.inner(), rx)]),
    Rule::Matches(m) => json!(["matches", m.verif_rule_id()]),
  }
}

/// `{"rule", "constraints": {var: rule}, "kinds", "locals": {id: rule}, "globals": {id: core}}`
pub fn dump_core(c: &RuleCore<L>, rx: &mut Regexes, with_registry: bool) -> Value {
  let (rule, constraints, kinds, reg) = c.verif_parts();
  let mut cons = serde_json::Map::new();
  let mut keys: Vec<&String> = constraints.keys().collect();
  keys.sort();
  for k in keys {
    cons.insert(k.clone(), dump_rule(&constraints[k], rx));
  }
  let mut v = json!({"rule": dump_rule(rule, rx), "constraints": cons, "kinds": kinds_json(kinds.clone())});
  if with_registry {
    let mut locals = serde_json::Map::new();
    let mut lk: Vec<&String> = reg.verif_locals().keys().collect();
    lk.sort();
    for k in lk {
      locals.insert(k.clone(), dump_rule(&reg.verif_locals()[k], rx));
    }
    let mut globals = serde_json::Map::new();
    let mut gk: Vec<&String> = reg.verif_globals().keys().collect();
    gk.sort();
    for k in gk {
      globals.insert(k.clone(), dump_core(&reg.verif_globals()[k], rx, false));
    }
    v["locals"] = Value::Object(locals);
    v["globals"] = Value::Object(globals);
  }
  v
}

/// the strictness of every pattern atom of a rule, in no particular order (relations: the sub-rule
/// and a `stopBy` rule; `nthChild`: its `ofRule`)
pub fn collect_strictness(r: &Rule<L>, out: &mut Vec<&'static str>) {
  fn stop(s: &StopBy<L>, out: &mut Vec<&'static str>) {
    if let StopBy::Rule(r) = s {
      collect_strictness(r, out);
    }
  }
  match r {
    Rule::Pattern(p) => out.push(strictness_name(&p.strictness)),
    Rule::Kind(_) | Rule::Regex(_) | Rule::Range(_) | Rule::Matches(_) => {}
    Rule::NthChild(n) => {
      if let Some(of) = n.verif_parts().2 {
        collect_strictness(of, out);
      }
    }
    Rule::Inside(i) => {
      let (r, s, _) = i.verif_parts();
      collect_strictness(r, out);
      stop(s, out);
    }
    Rule::Has(i) => {
      let (r, s, _) = i.verif_parts();
      collect_strictness(r, out);
      stop(s, out);
    }
    Rule::Precedes(i) => {
      let (r, s) = i.verif_parts();
      collect_strictness(r, out);
      stop(s, out);
    }
    Rule::Follows(i) => {
      let (r, s) = i.verif_parts();
      collect_strictness(r, out);
      stop(s, out);
    }
    Rule::All(a) => a.inner().iter().for_each(|x| collect_strictness(x, out)),
    Rule::Any(a) => a.inner().iter().for_each(|x| collect_strictness(x, out)),
    Rule::Not(n) => collect_strictness(n.inner(), out),
  }
}

/// the same over a rule core: rule, constraints and local utilities
pub fn core_strictness(c: &RuleCore<L>) -> Vec<&'static str> {
  let (rule, constraints, _, reg) = c.verif_parts();
  let mut out = vec![];
  collect_strictness(rule, &mut out);
  for r in constraints.values() {
    collect_strictness(r, &mut out);
  }
  for r in reg.verif_locals().values() {
    collect_strictness(r, &mut out);
  }
  out.sort();
  out
}

/// what the rule TEXT says: every `pattern` key of the document (global utilities aside), `smart` when it is a plain string or
/// an object without `strictness`
pub fn spec_strictness(v: &Value, out: &mut Vec<String>) {
  match v {
    Value::Object(m) => {
      for (k, x) in m {
        if k == "globals" {
          // global utilities are separate rule files: not part of `core_strictness`
          continue;
        }
        if k == "pattern" {
          match x {
            Value::Object(p) => out.push(p.get("strictness").and_then(|s| s.as_str()).unwrap_or("smart").to_string()),
            _ => out.push("smart".into()),
          }
        } else {
          spec_strictness(x, out);
        }
      }
    }
    Value::Array(a) => a.iter().for_each(|x| spec_strictness(x, out)),
    _ => {}
  }
}
