//! corpus of seed sources (one directory per language under /verif/corpus) + mutators
use crate::util::Rng;
use ast_grep_language::SupportLang;
use std::path::PathBuf;

pub fn corpus_dir() -> PathBuf {
  if let Ok(p) = std::env::var("AGV_CORPUS") {
    return PathBuf::from(p);
  }
  // <verif>/harness/target/debug/agv-harness -> <verif>/corpus
  let exe = std::env::current_exe().expect("exe");
  let verif = exe
    .parent()
    .and_then(|p| p.parent())
    .and_then(|p| p.parent())
    .and_then(|p| p.parent())
    .expect("verif dir");
  verif.join("corpus")
}

pub fn lang_of_dir(d: &str) -> Option<SupportLang> {
  use SupportLang::*;
  Some(match d {
    "bash" => Bash,
    "c" => C,
    "cpp" => Cpp,
    "csharp" => CSharp,
    "css" => Css,
    "elixir" => Elixir,
    "go" => Go,
    "haskell" => Haskell,
    "html" => Html,
    "java" => Java,
    "javascript" => JavaScript,
    "json" => Json,
    "kotlin" => Kotlin,
    "lua" => Lua,
    "php" => Php,
    "python" => Python,
    "ruby" => Ruby,
    "rust" => Rust,
    "scala" => Scala,
    "swift" => Swift,
    "tsx" => Tsx,
    "typescript" => TypeScript,
    "yaml" => Yaml,
    _ => return None,
  })
}

pub struct Source {
  pub lang: SupportLang,
  pub name: String,
  pub text: String,
}

/// every corpus file, sorted by path (deterministic)
pub fn load() -> Vec<Source> {
  let root = corpus_dir();
  let mut out = vec![];
  let mut dirs: Vec<_> = std::fs::read_dir(&root)
    .unwrap_or_else(|e| panic!("corpus dir {root:?}: {e}"))
    .filter_map(|e| e.ok())
    .collect();
  dirs.sort_by_key(|e| e.file_name());
  for d in dirs {
    let dn = d.file_name().to_string_lossy().to_string();
    let Some(lang) = lang_of_dir(&dn) else { continue };
    let mut files: Vec<_> = std::fs::read_dir(d.path()).unwrap().filter_map(|e| e.ok()).collect();
    files.sort_by_key(|e| e.file_name());
    for f in files {
      if let Ok(text) = std::fs::read_to_string(f.path()) {
        out.push(Source {
          lang,
          name: format!("{dn}/{}", f.file_name().to_string_lossy()),
          text,
        });
      }
    }
  }
  out
}

/// mutated variants: token deletion (syntax errors), CRLF, multi-byte injection, no trailing newline
pub fn mutate(text: &str, rng: &mut Rng) -> String {
  match rng.below(5) {
    0 => {
      // delete a random non-space char (likely punctuation/keyword part) -> ERROR / MISSING nodes
      let idx: Vec<usize> = text.char_indices().filter(|(_, c)| !c.is_whitespace()).map(|(i, _)| i).collect();
      if idx.is_empty() {
        return text.to_string();
      }
      let i = idx[rng.below(idx.len())];
      let mut s = text.to_string();
      let c = s[i..].chars().next().unwrap();
      s.replace_range(i..i + c.len_utf8(), "");
      s
    }
    1 => text.replace('\n', "\r\n"),
    2 => {
      // inject a multi-byte char into a random ascii letter position
      let idx: Vec<usize> = text.char_indices().filter(|(_, c)| c.is_ascii_lowercase()).map(|(i, _)| i).collect();
      if idx.is_empty() {
        return text.to_string();
      }
      let i = idx[rng.below(idx.len())];
      let mut s = text.to_string();
      // one char per UTF-8 length class and lead-byte boundary: C3, DF (U+07FF), E0 (U+0800, U+0E01,
      // U+0FFF), E1 (U+1000), E4, EF (U+FFFD), F0 (U+10000, U+1D4B3), F4 (U+10FFFF)
      s.insert(i, *rng.pick(&['é', '\u{7FF}', '\u{800}', 'ก', '\u{FFF}', '\u{1000}', '中', '\u{FFFD}', '\u{10000}', '𝒳', '\u{10FFFF}']));
      s
    }
    3 => text.trim_end_matches('\n').to_string(),
    _ => {
      // duplicate a random line
      let lines: Vec<&str> = text.split('\n').collect();
      let k = rng.below(lines.len());
      let mut out: Vec<&str> = vec![];
      for (i, l) in lines.iter().enumerate() {
        out.push(l);
        if i == k {
          out.push(l);
        }
      }
      out.join("\n")
    }
  }
}
