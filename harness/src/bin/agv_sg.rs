//! The real ast-grep CLI built from /repo's current working tree.
//! Same body as `crates/cli/src/main.rs`; lives here so that the checks never touch /repo/target.
fn main() -> anyhow::Result<()> {
  ast_grep::execute_main()
}
