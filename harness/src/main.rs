//! agv-harness: runs the real ast-grep functions on generated inputs and writes one JSON op
//! per line (`{"op","a","r"}`) for the Lean model driver to replay, plus `oracle` lines
//! (property oracles evaluated on the implementation alone).
mod corpus;
mod ruledump;
mod treedump;
mod units;
mod util;

use util::*;

fn main() {
  let args: Vec<String> = std::env::args().collect();
  if args.len() < 2 {
    eprintln!("usage: agv-harness <unit> [--seed N] [--tier quick|thorough] [--out FILE]");
    std::process::exit(2);
  }
  let unit = args[1].clone();
  let mut seed: u64 = 1;
  let mut tier = "quick".to_string();
  let mut out: Option<String> = None;
  let mut rest: Vec<String> = vec![];
  let mut i = 2;
  while i < args.len() {
    match args[i].as_str() {
      "--seed" => {
        seed = args[i + 1].parse().expect("seed");
        i += 2;
      }
      "--tier" => {
        tier = args[i + 1].clone();
        i += 2;
      }
      "--out" => {
        out = Some(args[i + 1].clone());
        i += 2;
      }
      _ => {
        rest.push(args[i].clone());
        i += 1;
      }
    }
  }
  // Every unit runs on a thread that has already handled a document with embedded languages (an
  // HTML page with a script and a style: `get_injections` restricts a parser to byte ranges) and a
  // pattern in another language: whatever the library keeps per thread between documents — a
  // re-used parser, a cache — is then part of every later parse, as it is for the second file a
  // walker thread of the CLI visits. What a parse yields must not depend on that history: the
  // same texts parsed on a fresh thread give the reference (`thread_state`, reported by every unit).
  let thread_state = if unit == "tables" {
    None
  } else {
    use ast_grep_core::{Language as _, Pattern};
    use ast_grep_language::SupportLang;
    let page = "<html>\n<head>\n<style>\n  a { color: red }\n</style>\n</head>\n<body>\n<script>\n  let answer = compute(6, 7)\n</script>\n</body>\n</html>\n";
    let doc = SupportLang::Html.ast_grep(page);
    let inj = doc.inner.get_injections(|s| s.parse::<SupportLang>().ok());
    let _ = inj.iter().map(|d| d.root().dfs().count()).sum::<usize>();
    let probe = || -> Vec<String> {
      let mut v = vec![];
      for (lang, text) in [
        (SupportLang::JavaScript, "const total = compute(left, right);\nfoo(1)\n"),
        (SupportLang::Python, "def f(a):\n    return compute(a, 2)\n"),
        (SupportLang::Rust, "fn main() { let x = compute(1, 2); }\n"),
      ] {
        let g = lang.ast_grep(text);
        v.push(g.root().dfs().map(|n| format!("{}:{}-{}", n.kind(), n.range().start, n.range().end)).collect::<Vec<_>>().join(" "));
        v.push(match Pattern::try_new("compute($A, $B)", lang) {
          Ok(p) => g.root().find_all(&p).map(|m| m.text().to_string()).collect::<Vec<_>>().join("|"),
          Err(e) => format!("pattern error: {e}"),
        });
      }
      v
    };
    let here = std::panic::catch_unwind(std::panic::AssertUnwindSafe(probe)).unwrap_or_else(|_| vec!["panic".into()]);
    let fresh = std::thread::spawn(move || std::panic::catch_unwind(std::panic::AssertUnwindSafe(probe)).unwrap_or_else(|_| vec!["panic".into()])).join().unwrap_or_default();
    // a pattern given as TEXT (`impl Matcher for str`: `find_all("...")` of the library) means the
    // pattern compiled for the language of the document at hand — also when the same text was used on
    // a document of another language just before (grammars number their node kinds differently)
    let str_matcher = || -> Option<serde_json::Value> {
      use ast_grep_core::Language as _;
      let js = "async function f(a) { for (const k in a) { while (k) { await g(k); break; } continue; } return this; }\nlet r = /this/;\ncompute(1, 2);\n";
      let c = "int f(int a) { while (a) { if (a) break; else continue; } return compute(a, 2); }\n";
      let docs = [
        (SupportLang::JavaScript, js), (SupportLang::TypeScript, js), (SupportLang::Tsx, js), (SupportLang::JavaScript, js),
        (SupportLang::C, c), (SupportLang::Cpp, c), (SupportLang::CSharp, "class A { int F(int a) { while (a > 0) { break; } return compute(a, 2); } }\n"),
      ];
      for pat in ["break", "continue", "return", "this", "compute($A, $B)", "while"] {
        for (lang, text) in docs {
          let g = lang.ast_grep(text);
          let by_text: Vec<(usize, usize)> = g.root().find_all(pat).map(|m| (m.range().start, m.range().end)).collect();
          let by_pattern: Vec<(usize, usize)> = match Pattern::try_new(pat, lang) {
            Ok(p) => g.root().find_all(&p).map(|m| (m.range().start, m.range().end)).collect(),
            Err(_) => continue,
          };
          if by_text != by_pattern {
            return Some(serde_json::json!({"fp": "a pattern given as text finds other nodes than the pattern compiled for the document's language (after the same text was used on another language)",
              "pattern": pat, "lang": lang.to_string(), "text": text, "find_all_str": by_text, "find_all_pattern": by_pattern}));
          }
        }
      }
      None
    };
    if here != fresh {
      Some(serde_json::json!({"fp": "a parse depends on what the thread parsed before (after get_injections on an HTML page)",
        "page": page, "after_injection": here, "fresh_thread": fresh}))
    } else {
      std::panic::catch_unwind(std::panic::AssertUnwindSafe(str_matcher)).unwrap_or_else(|_| Some(serde_json::json!({"fp": "a pattern given as text panics"})))
    }
  };
  let thorough = tier == "thorough";
  let ctx = units::Ctx {
    seed,
    thorough,
    rest,
  };
  if unit == "tables" {
    // (not after the prelude's verdict: the tables come from the language crate's own data)
    print!("{}", units::tables::generate());
    return;
  }
  if std::env::var("AGV_SHOW_PANIC").is_err() {
    silence_panics();
  }
  if unit == "replay" {
    use std::io::BufRead;
    for line in std::io::stdin().lock().lines() {
      let line = line.unwrap();
      let v: serde_json::Value = serde_json::from_str(&line).expect("json op");
      let r = units::exec_op(v["op"].as_str().unwrap_or(""), &v["a"]);
      println!("{}", r);
    }
    return;
  }
  let mut o = Out::new(out.as_deref());
  match &thread_state {
    Some(d) => {
      // nothing a unit does on this thread can be trusted now: report and stop
      o.oracle("thread-state", false, d.clone());
      o.finish();
      return;
    }
    None => o.oracle("thread-state", true, serde_json::json!({"cases": 1})),
  }
  let mut rng = Rng::new(seed);
  let ran = std::panic::catch_unwind(std::panic::AssertUnwindSafe(|| units::run(&unit, &ctx, &mut rng, &mut o)));
  let ran = match ran {
    Ok(r) => r,
    Err(_) => {
      let last = util::LAST_PANIC.lock().map(|g| g.clone()).unwrap_or_default();
      eprintln!("harness unit {unit}: unguarded panic at {last}");
      std::process::exit(101);
    }
  };
  if !ran {
    eprintln!("unknown unit {unit}");
    std::process::exit(2);
  }
  o.finish();
}
