//! agv-harness: runs the real ast-grep functions on generated inputs and writes one JSON op
//! per line (`{"op","a","r"}`) for the Lean model driver to replay, plus `oracle` lines
//! (property oracles evaluated on the implementation alone).
mod corpus;
mod ruledump;
mod treedump;
mod units;
mod util;

use util::*;

fn main() {
  let args: Vec<String> = std::env::args().collect();
  if args.len() < 2 {
    eprintln!("usage: agv-harness <unit> [--seed N] [--tier quick|thorough] [--out FILE]");
    std::process::exit(2);
  }
  let unit = args[1].clone();
  let mut seed: u64 = 1;
  let mut tier = "quick".to_string();
  let mut out: Option<String> = None;
  let mut rest: Vec<String> = vec![];
  let mut i = 2;
  while i < args.len() {
    match args[i].as_str() {
      "--seed" => {
        seed = args[i + 1].parse().expect("seed");
        i += 2;
      }
      "--tier" => {
        tier = args[i + 1].clone();
        i += 2;
      }
      "--out" => {
        out = Some(args[i + 1].clone());
        i += 2;
      }
      _ => {
        rest.push(args[i].clone());
        i += 1;
      }
    }
  }
  let thorough = tier == "thorough";
  let ctx = units::Ctx {
    seed,
    thorough,
    rest,
  };
  if unit == "tables" {
    print!("{}", units::tables::generate());
    return;
  }
  if std::env::var("AGV_SHOW_PANIC").is_err() {
    silence_panics();
  }
  if unit == "replay" {
    use std::io::BufRead;
    for line in std::io::stdin().lock().lines() {
      let line = line.unwrap();
      let v: serde_json::Value = serde_json::from_str(&line).expect("json op");
      let r = units::exec_op(v["op"].as_str().unwrap_or(""), &v["a"]);
      println!("{}", r);
    }
    return;
  }
  let mut o = Out::new(out.as_deref());
  let mut rng = Rng::new(seed);
  if !units::run(&unit, &ctx, &mut rng, &mut o) {
    eprintln!("unknown unit {unit}");
    std::process::exit(2);
  }
  o.finish();
}
