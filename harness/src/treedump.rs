//! dump of a parsed document through ast-grep's `Node` API, as data for the Lean model
use ast_grep_core::matcher::PatternNode;
use ast_grep_core::meta_var::MetaVariable;
use ast_grep_core::{Doc, Language, Node};
use serde_json::{json, Value};
use std::collections::HashMap;

pub const F_NAMED: u64 = 1;
pub const F_COMMENT: u64 = 2;
pub const F_MISSING: u64 = 4;
pub const F_ERROR: u64 = 8;
pub const F_EXTRA: u64 = 16;

/// node ids (tree-sitter `id()`) -> pre-order number
pub struct Ids(pub HashMap<usize, usize>);
impl Ids {
  pub fn of<D: Doc>(&self, n: &Node<D>) -> usize {
    *self.0.get(&n.node_id()).expect("node of the dumped document")
  }
}

/// `[kind, flags, start, end, field_id | -1, id, [children]]`, ids in pre-order
pub fn dump<D: Doc>(root: &Node<D>) -> (Value, Ids) {
  let mut ids = HashMap::new();
  let mut counter = 0usize;
  let v = dump_rec(root, None, &mut counter, &mut ids);
  (v, Ids(ids))
}

fn dump_rec<D: Doc>(n: &Node<D>, field: Option<u16>, counter: &mut usize, ids: &mut HashMap<usize, usize>) -> Value {
  let id = *counter;
  *counter += 1;
  ids.insert(n.node_id(), id);
  let ts = n.get_ts_node();
  let mut flags = 0;
  if n.is_named() {
    flags |= F_NAMED;
  }
  if n.kind().contains("comment") {
    flags |= F_COMMENT;
  }
  if ts.is_missing() {
    flags |= F_MISSING;
  }
  if n.is_error() {
    flags |= F_ERROR;
  }
  if ts.is_extra() {
    flags |= F_EXTRA;
  }
  // children with their field ids, through a cursor as ast-grep's `children()` does
  let mut kids = vec![];
  let mut cursor = ts.walk();
  if cursor.goto_first_child() {
    let mut real_children = n.children();
    loop {
      let fid = cursor.field_id();
      let child = real_children.next().expect("children() agrees with the cursor");
      debug_assert_eq!(child.node_id(), cursor.node().id());
      kids.push(dump_rec(&child, fid, counter, ids));
      if !cursor.goto_next_sibling() {
        break;
      }
    }
  }
  let r = n.range();
  json!([n.kind_id(), flags, r.start, r.end, field.map(|f| f as i64).unwrap_or(-1), id, kids])
}

pub fn mv_json(m: &MetaVariable) -> Value {
  match m {
    MetaVariable::Capture(n, named) => json!(["cap", n, named]),
    MetaVariable::Dropped(named) => json!(["drop", named]),
    MetaVariable::Multiple => json!(["multi"]),
    MetaVariable::MultiCapture(n) => json!(["mcap", n]),
  }
}

/// `["M", mv] | ["T", text, named, kind] | ["I", kind, [children]]`
pub fn dump_pattern(p: &PatternNode) -> Value {
  match p {
    PatternNode::MetaVar { meta_var } => json!(["M", mv_json(meta_var)]),
    PatternNode::Terminal { text, is_named, kind_id } => json!(["T", text, is_named, kind_id]),
    PatternNode::Internal { kind_id, children } => {
      json!(["I", kind_id, children.iter().map(dump_pattern).collect::<Vec<_>>()])
    }
  }
}

/// The tree-sitter contract the model assumes (DESIGN 5.2), checked through the public API:
/// `parent(child_i) = n`, `next`/`prev` are the neighbours in `children()`,
/// `child_by_field_id(f)` is the first child under field `f`, child ranges are ordered and nested.
/// Returns a description of the first violation.
pub fn contract_violation<D: Doc>(root: &Node<D>) -> Option<String> {
  for n in root.dfs() {
    let kids: Vec<Node<D>> = n.children().collect();
    let mut cursor = n.get_ts_node().walk();
    let mut fields: Vec<Option<u16>> = vec![];
    if cursor.goto_first_child() {
      loop {
        fields.push(cursor.field_id());
        if !cursor.goto_next_sibling() {
          break;
        }
      }
    }
    if fields.len() != kids.len() {
      return Some(format!("children()/cursor length differ at {:?}", n.range()));
    }
    // a cursor positioned by byte offset on child i walks left/right over the same children
    for (i, c) in kids.iter().enumerate() {
      let mut cur = n.get_ts_node().walk();
      let landed = cur.goto_first_child_for_byte(c.range().start as u32);
      let want = kids.iter().position(|k| k.range().end > c.range().start);
      let got = landed.and_then(|_| kids.iter().position(|k| k.node_id() == cur.node().id()));
      if got != want {
        return Some(format!("goto_first_child_for_byte lands on child {got:?}, expected {want:?} at {:?}", c.range()));
      }
      if got == Some(i) {
        let mut left = cur.clone();
        let moved = left.goto_previous_sibling();
        let lid = if moved { Some(left.node().id()) } else { None };
        let want_l = if i == 0 { None } else { Some(kids[i - 1].node_id()) };
        if lid != want_l {
          return Some(format!("cursor goto_previous_sibling leaves the sibling list at {:?}", c.range()));
        }
        let moved = cur.goto_next_sibling();
        let rid = if moved { Some(cur.node().id()) } else { None };
        let want_r = kids.get(i + 1).map(|k| k.node_id());
        if rid != want_r {
          return Some(format!("cursor goto_next_sibling leaves the sibling list at {:?}", c.range()));
        }
      }
    }
    // no field the cursor does not report
    let tsl = n.lang().get_ts_language();
    for f in 1..=(tsl.field_count() as u16) {
      if !fields.contains(&Some(f)) && n.get_ts_node().child_by_field_id(f).is_some() {
        return Some(format!("child_by_field_id({f}) finds a child the cursor does not label at {:?}", n.range()));
      }
    }
    let r = n.range();
    let mut last_end = r.start;
    for (i, c) in kids.iter().enumerate() {
      // (everything below asks TREE-SITTER, never ast-grep's own navigation built on it: a tree is
      // outside the contract only when the parser library misbehaves; `Node::parent` / `next` /
      // `prev` / `next_all` / `prev_all` are code under test and are judged by C19 and the rule units)
      let tsc = c.get_ts_node();
      match tsc.parent() {
        Some(p) if p.id() == n.node_id() => {}
        _ => return Some(format!("parent(child) != node at {:?}", c.range())),
      }
      let nx = tsc.next_sibling().map(|x| x.id());
      let want_nx = kids.get(i + 1).map(|x| x.node_id());
      if nx != want_nx {
        return Some(format!("next() is not the following child at {:?}", c.range()));
      }
      let pv = tsc.prev_sibling().map(|x| x.id());
      let want_pv = if i == 0 { None } else { Some(kids[i - 1].node_id()) };
      if pv != want_pv {
        return Some(format!("prev() is not the preceding child at {:?}", c.range()));
      }
      // the repeated cursor walks behind next_all()/prev_all() stay on the sibling list: a cursor of
      // the parent placed with goto_first_child_for_byte(start of the child), then stepped to the end
      let raw_walk = |fwd: bool| -> Vec<usize> {
        let mut cur = n.get_ts_node().walk();
        cur.goto_first_child_for_byte(tsc.start_byte());
        let mut out = vec![];
        while if fwd { cur.goto_next_sibling() } else { cur.goto_previous_sibling() } {
          out.push(cur.node().id());
          if out.len() > kids.len() + 2 {
            break;
          }
        }
        out
      };
      let want_na: Vec<usize> = kids[i + 1..].iter().map(|x| x.node_id()).collect();
      if raw_walk(true) != want_na {
        return Some(format!("next_all() is not the list of following children at {:?}", c.range()));
      }
      let want_pa: Vec<usize> = kids[..i].iter().rev().map(|x| x.node_id()).collect();
      if raw_walk(false) != want_pa {
        return Some(format!("prev_all() is not the reversed list of preceding children at {:?}", c.range()));
      }
      let cr = c.range();
      if cr.start < last_end || cr.end > r.end || cr.start > cr.end {
        return Some(format!("child range not ordered/nested at {:?}", cr));
      }
      last_end = cr.end;
      if let Some(f) = fields[i] {
        let first = fields.iter().position(|x| *x == Some(f)).unwrap();
        match n.get_ts_node().child_by_field_id(f) {
          Some(x) if x.id() == kids[first].node_id() => {}
          _ => return Some(format!("child_by_field_id({f}) is not the first child under that field at {:?}", r)),
        }
      }
    }
  }
  None
}
