//! dump of a parsed document through ast-grep's `Node` API, as data for the Lean model
use ast_grep_core::matcher::PatternNode;
use ast_grep_core::meta_var::MetaVariable;
use ast_grep_core::{Doc, Node};
use serde_json::{json, Value};
use std::collections::HashMap;

pub const F_NAMED: u64 = 1;
pub const F_COMMENT: u64 = 2;
pub const F_MISSING: u64 = 4;
pub const F_ERROR: u64 = 8;
pub const F_EXTRA: u64 = 16;

/// node ids (tree-sitter `id()`) -> pre-order number
pub struct Ids(pub HashMap<usize, usize>);
impl Ids {
  pub fn of<D: Doc>(&self, n: &Node<D>) -> usize {
    *self.0.get(&n.node_id()).expect("node of the dumped document")
  }
}

/// `[kind, flags, start, end, field_id | -1, id, [children]]`, ids in pre-order
pub fn dump<D: Doc>(root: &Node<D>) -> (Value, Ids) {
  let mut ids = HashMap::new();
  let mut counter = 0usize;
  let v = dump_rec(root, None, &mut counter, &mut ids);
  (v, Ids(ids))
}

fn dump_rec<D: Doc>(n: &Node<D>, field: Option<u16>, counter: &mut usize, ids: &mut HashMap<usize, usize>) -> Value {
  let id = *counter;
  *counter += 1;
  ids.insert(n.node_id(), id);
  let ts = n.get_ts_node();
  let mut flags = 0;
  if n.is_named() {
    flags |= F_NAMED;
  }
  if n.kind().contains("comment") {
    flags |= F_COMMENT;
  }
  if ts.is_missing() {
    flags |= F_MISSING;
  }
  if n.is_error() {
    flags |= F_ERROR;
  }
  if ts.is_extra() {
    flags |= F_EXTRA;
  }
  // children with their field ids, through a cursor as ast-grep's `children()` does
  let mut kids = vec![];
  let mut cursor = ts.walk();
  if cursor.goto_first_child() {
    let mut real_children = n.children();
    loop {
      let fid = cursor.field_id();
      let child = real_children.next().expect("children() agrees with the cursor");
      debug_assert_eq!(child.node_id(), cursor.node().id());
      kids.push(dump_rec(&child, fid, counter, ids));
      if !cursor.goto_next_sibling() {
        break;
      }
    }
  }
  let r = n.range();
  json!([n.kind_id(), flags, r.start, r.end, field.map(|f| f as i64).unwrap_or(-1), id, kids])
}

pub fn mv_json(m: &MetaVariable) -> Value {
  match m {
    MetaVariable::Capture(n, named) => json!(["cap", n, named]),
    MetaVariable::Dropped(named) => json!(["drop", named]),
    MetaVariable::Multiple => json!(["multi"]),
    MetaVariable::MultiCapture(n) => json!(["mcap", n]),
  }
}

/// `["M", mv] | ["T", text, named, kind] | ["I", kind, [children]]`
pub fn dump_pattern(p: &PatternNode) -> Value {
  match p {
    PatternNode::MetaVar { meta_var } => json!(["M", mv_json(meta_var)]),
    PatternNode::Terminal { text, is_named, kind_id } => json!(["T", text, is_named, kind_id]),
    PatternNode::Internal { kind_id, children } => {
      json!(["I", kind_id, children.iter().map(dump_pattern).collect::<Vec<_>>()])
    }
  }
}
