use ast_grep_core::Language;
use ast_grep_language::SupportLang;
fn main() {
  let src = std::fs::read_to_string(std::env::args().nth(1).unwrap()).unwrap();
  let lang: SupportLang = std::env::args().nth(2).unwrap().parse().unwrap();
  let grep = lang.ast_grep(&src);
  let root = grep.root();
  for n in root.dfs() {
    let kids: Vec<_> = n.children().collect();
    for (i, c) in kids.iter().enumerate() {
      let nx = c.next().map(|x| x.node_id());
      let want = kids.get(i + 1).map(|x| x.node_id());
      if nx != want {
        println!("parent {} {:?}: child {i} {} {:?} next={:?} want={:?}", n.kind(), n.range(), c.kind(), c.range(),
          c.next().map(|x| (x.kind().to_string(), x.range())), kids.get(i+1).map(|x| (x.kind().to_string(), x.range())));
      }
    }
  }
}
