defmodule Demo.Point do
  @moduledoc "doc"
  # comment
  defstruct x: 0, y: 2
  @type t :: %__MODULE__{x: integer, y: integer}
  def new(x, y \\ 2), do: %__MODULE__{x: x, y: y}
  def norm(%__MODULE__{x: x, y: y}) when x > 0 do
    :math.sqrt(x * x + y * y)
  end
  defp run(items) do
    Enum.each(items, fn it -> IO.puts("t#{it}") end) # trailing
    case items do
      [] -> :none
      [h | _] when is_integer(h) -> {:ok, h}
      _ -> :many
    end
    m = %{"a" => [1, 2], é: nil}
    with {:ok, a} <- foo(1, 2), {:ok, b} <- foo(a, 1) do a + b else _ -> 0 end
    foo(a, b); foo(b, a); foo(a, a)
    items |> Enum.map(&(&1 * 2)) |> Enum.sum()
  end
end
