interface Shape { area(): number; name?: string }
type Pair<T> = [T, T] | null;
enum Color { Red = 1, Green, Blue }
export abstract class Base<T extends object> implements Shape {
  private readonly items: Map<string, T> = new Map();
  constructor(public id: number, protected tag = "x") {}
  abstract area(): number;
  add(k: string, v: T): this { this.items.set(k, v); return this; }
}
function ident<T>(x: T): T { return x as T; }
const f = async (a: number, b?: string): Promise<void> => { await g(a!, b ?? "é"); };
declare module "m" { export const v: number; }
let u: unknown = <any>f; // comment
namespace NS { export const k = 1 }
for (const [k, v] of Object.entries(o)) { if (typeof v === "string") continue; }
