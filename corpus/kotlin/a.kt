package demo
import kotlin.math.sqrt
// comment
data class Point(val x: Int, var y: Int = 2) : Base(), Shape {
    val norm: Double get() = sqrt((x * x + y * y).toDouble())
    override fun area(): Double = 0.0
    companion object { fun of(o: Any?): Point? = o as? Point }
}
sealed class R { object Ok : R(); class Err(val m: String) : R() }
fun <T> ident(x: T): T = x
fun main(args: Array<String>) {
    val m = mapOf("a" to listOf(1, 2), "é" to emptyList())
    for ((k, v) in m) { println("$k: ${v.size}") } // trailing
    val r = when (val n = args.size) { 0 -> "none"; in 1..3 -> "few"; else -> "many" }
    val f = { a: Int, b: Int -> a + b }
    if (f(1, 2) > 2) return else Unit
    try { foo(1, 2) } catch (e: Exception) { throw e } finally { done() }
    foo(a, b); foo(b, a); foo(a, a)
    items?.forEach { it.go() }
}
