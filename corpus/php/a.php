<?php
namespace Demo;
use Foo\Bar as Baz;
// comment
class Point extends Base implements Shape {
    public int $x = 0;
    private const K = 1;
    public function __construct(int $x, protected ?int $y = 2) { parent::__construct(); $this->x = $x; }
    public function norm(): float { return sqrt($this->x ** 2 + $this->y ** 2); }
    public static function of(array $o): static { return new static($o['x'] ?? 0); }
}
function run(array $items, ...$rest) {
    foreach ($items as $k => $it) { echo $it, "t{$k}"; } // trailing
    for ($i = 0; $i < 10; $i++) { if ($i % 2 == 0) continue; }
    try { foo(1, 2); } catch (\Exception | \Error $e) { throw new \RuntimeException("é", 0, $e); } finally { done(); }
    $f = fn($a, $b) => $a + $b;
    $g = function ($a) use ($f) { return $f($a, 1); };
    $x = $a > $b ? $a : ($b ?: 0);
    foo($a, $b); foo($b, $a); foo($a, $a);
    ECHO 1;
    return match(true) { $x > 1 => 'a', default => null };
}
