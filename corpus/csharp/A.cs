using System;
using System.Collections.Generic;
namespace Demo {
  /// doc
  public class A<T> : Base, IRun where T : class {
    private readonly List<T> items = new List<T>();
    public int Count { get; private set; }
    public A(int n) : base(n) { }
    public async Task Run() {
      foreach (var it in items) { Console.WriteLine(it); } // trailing
      for (int i = 0; i < 10; i++) { if (i % 2 == 0) continue; }
      try { await Foo(1, 2); } catch (Exception e) when (e is ArgumentException) { throw; } finally { Done(); }
      Func<int, int, int> f = (a, b) => a + b;
      var x = a > b ? a : b ?? 0;
      switch (x) { case 1: break; default: return; }
      foo(a, b); foo(b, a); foo(a, a);
      var s = $"é {x}";
    }
  }
  enum Color { Red, Green }
}
