import React, { useState } from "react";
type Props = { title: string; items?: number[] };
export function List({ title, items = [] }: Props) {
  const [n, setN] = useState<number>(0);
  return (
    <div className="list" onClick={() => setN(n + 1)}>
      <h1>{title}</h1>
      {items.map((i) => <Item key={i} value={i} />)}
      <>fragment {n > 0 && <b>pos</b>}</>
    </div>
  );
}
const Item = ({ value }: { value: number }) => <li data-v={value}>{`#${value}`}</li>;
