//! crate doc
use std::collections::{HashMap, HashSet};
#[derive(Debug, Clone)]
pub struct Point<T> { pub x: T, y: T }
pub enum Shape { Circle(f64), Rect { w: f64, h: f64 }, Unit }
impl<T: Copy + std::ops::Add<Output = T>> Point<T> {
    pub fn new(x: T, y: T) -> Self { Self { x, y } }
    fn sum(&self) -> T { self.x + self.y }
}
/// doc comment
pub fn area(s: &Shape) -> f64 {
    match s {
        Shape::Circle(r) => 3.14 * r * r,
        Shape::Rect { w, h } if *w > 0.0 => w * h,
        _ => 0.0,
    }
}
fn main() {
    let mut m: HashMap<String, Vec<u8>> = HashMap::new();
    m.insert("é".to_string(), vec![1, 2, 3]); // trailing
    for (k, v) in &m { println!("{k}: {:?}", v); }
    let c = |a: i32, b| a + b;
    let r = if c(1, 2) > 2 { Some(1) } else { None };
    while let Some(x) = r { break; }
    foo(a, b); foo(b, a); foo(a, a);
    let _ = unsafe { *(&r as *const _) };
}
