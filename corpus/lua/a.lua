-- comment
local M = {}
local function add(a, b, ...)
  if a > b then
    return a + b
  elseif a == b then
    return foo(a, b)
  else
    local t = { ... }
  end
  for i = 1, 10, 2 do print(i, "t" .. i) end -- trailing
  for k, v in pairs(t) do t[k] = v * 2 end
  while true do break end
  repeat a = a - 1 until a < 0
  return select("#", ...)
end
function M.new(x, y) return setmetatable({ x = x, y = y or 2, ["é"] = 1 }, M) end
function M:norm() return math.sqrt(self.x ^ 2 + self.y ^ 2) end
foo(a, b); foo(b, a); foo(a, a)
local s = [[long
string]]
goto done
::done::
return M
