package demo
import scala.collection.mutable.{Map => MMap}
// comment
case class Point(x: Int, y: Int = 2) extends Base with Shape {
  def norm: Double = math.sqrt(x * x + y * y)
  override def area(): Double = 0.0
}
sealed trait R
object R { case object Ok extends R; final case class Err(m: String) extends R }
object Main extends App {
  val m = Map("a" -> List(1, 2), "é" -> Nil)
  for ((k, v) <- m if v.nonEmpty) { println(s"$k: ${v.size}") } // trailing
  val r = args.length match { case 0 => "none"; case n if n < 3 => "few"; case _ => "many" }
  val f = (a: Int, b: Int) => a + b
  if (f(1, 2) > 2) println(1) else ()
  try { foo(1, 2) } catch { case e: Exception => throw e } finally { done() }
  foo(a, b); foo(b, a); foo(a, a)
  def ident[T](x: T): T = x
}
