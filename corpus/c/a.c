#include <stdio.h>
#define MAX(a, b) ((a) > (b) ? (a) : (b))
/* block */
typedef struct point { int x, y; } point_t;
static int add(int a, int b) { return a + b; }
enum color { RED, GREEN = 2 };
int main(int argc, char **argv) {
  point_t p = { .x = 1, .y = 2 };
  int arr[3] = {1, 2, 3};
  for (int i = 0; i < 3; i++) { printf("%d\n", arr[i]); } // trailing
  if (p.x > p.y) { return add(p.x, p.y); } else if (argc) { goto end; }
  while (argc--) { switch (argc) { case 1: break; default: continue; } }
  foo(a, b); foo(b, a); foo(a, a);
end:
  return 0;
}
