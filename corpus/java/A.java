package com.example;
import java.util.*;
/** javadoc */
public class A<T extends Comparable<T>> extends Base implements Runnable {
  private final List<T> items = new ArrayList<>();
  public static final int K = 1;
  public A(int n) { super(n); }
  @Override
  public void run() {
    for (T it : items) { System.out.println(it); } // trailing
    for (int i = 0; i < 10; i++) { if (i % 2 == 0) continue; }
    try { foo(1, 2); } catch (Exception | Error e) { throw new RuntimeException("é", e); } finally { done(); }
    Runnable r = () -> foo(a, b);
    int x = a > b ? a : b;
    switch (x) { case 1: break; default: return; }
    foo(a, b); foo(b, a); foo(a, a);
  }
  enum Color { RED, GREEN }
  interface I { int f(int x); }
}
