#include <vector>
#include <string>
namespace ns {
template <typename T>
class Box : public Base {
 public:
  explicit Box(T v) : v_(std::move(v)) {}
  T get() const { return v_; }
  virtual ~Box() = default;
 private:
  T v_;
};
}  // namespace ns
auto add = [](int a, int b) -> int { return a + b; };
int main() {
  std::vector<int> v{1, 2, 3};
  for (auto& x : v) { x += 1; } // trailing
  ns::Box<std::string> b("é");
  if (auto it = v.begin(); it != v.end()) { return *it; }
  try { throw std::runtime_error("x"); } catch (const std::exception& e) { }
  foo(a, b); foo(b, a); foo(a, a);
  return add(1, 2);
}
