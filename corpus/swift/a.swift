import Foundation
// comment
struct Point: Shape, Codable {
    var x: Int
    let y: Int = 2
    var norm: Double { return sqrt(Double(x * x + y * y)) }
    init(x: Int) { self.x = x }
    mutating func move(by d: Int) { x += d }
}
enum R { case ok, err(String) }
protocol Shape { func area() -> Double }
func run<T: Shape>(_ items: [T], flag: Bool = false) throws -> Int? {
    for it in items { print(it, "t\(it)") } // trailing
    guard let first = items.first else { return nil }
    let f = { (a: Int, b: Int) -> Int in a + b }
    if f(1, 2) > 2 { return 1 } else if flag { throw E.bad }
    switch first.area() { case 0: break; default: return 2 }
    do { try foo(1, 2) } catch let e as NSError { print(e) }
    foo(a, b); foo(b, a); foo(a, a)
    return items.count > 0 ? 1 : nil
}
