# comment
require "json"
module M
  class Point < Base
    attr_reader :x, :y
    def initialize(x, y = 2, *rest, k: 1, &blk)
      @x, @y = x, y
    end
    def norm; Math.sqrt(x**2 + y**2); end
  end
end
def run(items)
  items.each do |it|
    puts it, "t#{it}" # trailing
  end
  begin
    foo(1, 2)
  rescue ArgumentError => e
    raise "naïve"
  ensure
    done
  end
  h = { a: 1, "b" => [1, 2, 3] }
  foo(a, b); foo(b, a); foo(a, a)
  return h[:a] ? h["b"][0] : nil unless h.empty?
  x = if a > b then a else b end
end
l = ->(x, y = 1) { x + y }
