package main

// long sibling lists
func run() {
	v0 := wanted(0)
	// note 1
	for cond2 {
		break
	}
	target(3, "é3")
	if v2 > 0 {
		fence(4)
	}
	step5(v4)
	v6 := wanted(6)
	v7 := wanted(7)
	// note 8
	for cond9 {
		break
	}
	target(10, "é10")
	if v9 > 0 {
		fence(11)
	}
	step12(v11)
	v13 := wanted(13)
	v14 := wanted(14)
	// note 15
	for cond16 {
		break
	}
	target(17, "é17")
	if v16 > 0 {
		fence(18)
	}
	step19(v18)
	v20 := wanted(20)
	v21 := wanted(21)
	// note 22
	for cond23 {
		break
	}
	target(24, "é24")
	if v23 > 0 {
		fence(25)
	}
	step26(v25)
	v27 := wanted(27)
	v28 := wanted(28)
	// note 29
	for cond30 {
		break
	}
	target(31, "é31")
	if v30 > 0 {
		fence(32)
	}
	step33(v32)
	v34 := wanted(34)
	v35 := wanted(35)
	// note 36
	for cond37 {
		break
	}
	target(38, "é38")
	if v37 > 0 {
		fence(39)
	}
	step40(v39)
	v41 := wanted(41)
	v42 := wanted(42)
	// note 43
	for cond44 {
		break
	}
	target(45, "é45")
	if v44 > 0 {
		fence(46)
	}
	step47(v46)
	v48 := wanted(48)
	v49 := wanted(49)
	// note 50
	for cond51 {
		break
	}
	target(52, "é52")
	if v51 > 0 {
		fence(53)
	}
	step54(v53)
	v55 := wanted(55)
	v56 := wanted(56)
	// note 57
	for cond58 {
		break
	}
	target(59, "é59")
	if v58 > 0 {
		fence(60)
	}
	step61(v60)
	v62 := wanted(62)
	v63 := wanted(63)
	// note 64
	for cond65 {
		break
	}
	target(66, "é66")
	if v65 > 0 {
		fence(67)
	}
	step68(v67)
	v69 := wanted(69)
	v70 := wanted(70)
	// note 71
	for cond72 {
		break
	}
	target(73, "é73")
	if v72 > 0 {
		fence(74)
	}
	step75(v74)
	v76 := wanted(76)
	v77 := wanted(77)
	// note 78
	for cond79 {
		break
	}
	target(80, "é80")
	if v79 > 0 {
		fence(81)
	}
	step82(v81)
	v83 := wanted(83)
	v84 := wanted(84)
	// note 85
	for cond86 {
		break
	}
	target(87, "é87")
	if v86 > 0 {
		fence(88)
	}
	step89(v88)
	call(x0, x1, x2, x3, x4, x5, x6, x7, x8, x9, x10, x11, x12, x13, x14, x15, x16, x17, x18, x19, x20, x21, x22, x23, x24, x25, x26, x27, x28, x29, x30, x31, x32, x33, x34, x35, x36, x37, x38, x39)
}
