package main

import (
	"fmt"
	"os"
)

// Point is a point
type Point struct {
	X, Y int
	Name string `json:"name"`
}

type Shape interface{ Area() float64 }

func (p *Point) Add(o Point) Point { return Point{X: p.X + o.X, Y: p.Y + o.Y} }

func main() {
	m := map[string][]int{"a": {1, 2}, "é": nil}
	for k, v := range m {
		fmt.Println(k, len(v)) // trailing
	}
	if x := foo(1, 2); x > 0 {
		defer os.Exit(x)
	} else {
		go func() { ch <- 1 }()
	}
	switch y := v.(type) {
	case int:
		fmt.Printf("%d", y)
	default:
	}
	foo(a, b)
	foo(b, a)
	foo(a, a)
}
