#!/bin/bash
# comment
set -euo pipefail
NAME="wörld"
add() {
  local a=$1 b=${2:-2}
  if [ "$a" -gt "$b" ]; then
    echo $((a + b))
  elif [[ $a == $b ]]; then
    foo "$a" "$b"
  else
    return 1
  fi
}
for i in 1 2 3; do echo "t$i"; done # trailing
while read -r line; do printf '%s\n' "$line"; done < file.txt
case "$1" in
  start|run) add 1 2 ;;
  *) echo "usage" >&2; exit 2 ;;
esac
arr=(a b c); echo "${arr[@]}" | grep -q b && echo yes || echo no
out=$(ls -la | wc -l)
foo a b; foo b a; foo a a
cat <<EOT
heredoc $NAME
EOT
