module Demo (Point(..), norm, main) where
import qualified Data.Map as M
import Data.List (sortBy)
-- comment
data Point = Point { px :: Int, py :: Int } deriving (Show, Eq)
data Shape = Circle Double | Rect Double Double
class HasArea a where
  area :: a -> Double
instance HasArea Shape where
  area (Circle r) = pi * r * r
  area (Rect w h) = w * h
norm :: Point -> Double
norm (Point x y) = sqrt (fromIntegral (x * x + y * y))
add :: Int -> Int -> Int
add a b
  | a > b = a + b
  | otherwise = foo a b
main :: IO ()
main = do
  let m = M.fromList [("a", [1, 2]), ("b", [])]
  mapM_ (\(k, v) -> putStrLn (k ++ ": " ++ show (length v))) (M.toList m) -- trailing
  case M.lookup "a" m of
    Just xs -> print xs
    Nothing -> return ()
  print (foo a b, foo b a, foo a a)
  where helper x = if x > 0 then x else negate x
