// long sibling lists: more than 64 children under one parent
const table = [0, a1, a2, 3, a4, a5, 6, a7, a8, 9, a10, a11, 12, a13, a14, 15, a16, a17, 18, a19, a20, 21, a22, a23, 24, a25, a26, 27, a28, a29, 30, a31, a32, 33, a34, a35, 36, a37, a38, 39, a40, a41, 42, a43, a44, 45, a46, a47, 48, a49, a50, 51, a52, a53, 54, a55, a56, 57, a58, a59, 60, a61, a62, 63, a64, a65, 66, a67, a68, 69];
let v0 = wanted(0);
function f1(p) { return p + 1; }
target(2, 'é2');
step3(v2);
// note 4
while (cond5) { break; }
if (v4) { fence(6); }
step7(v6);
// note 8
while (cond9) { break; }
if (v8) { fence(10); }
let v11 = wanted(11);
function f12(p) { return p + 12; }
target(13, 'é13');
if (v12) { fence(14); }
let v15 = wanted(15);
function f16(p) { return p + 16; }
target(17, 'é17');
step18(v17);
// note 19
while (cond20) { break; }
target(21, 'é21');
step22(v21);
// note 23
while (cond24) { break; }
if (v23) { fence(25); }
let v26 = wanted(26);
function f27(p) { return p + 27; }
while (cond28) { break; }
if (v27) { fence(29); }
let v30 = wanted(30);
function f31(p) { return p + 31; }
target(32, 'é32');
step33(v32);
// note 34
function f35(p) { return p + 35; }
target(36, 'é36');
step37(v36);
// note 38
while (cond39) { break; }
if (v38) { fence(40); }
let v41 = wanted(41);
// note 42
while (cond43) { break; }
if (v42) { fence(44); }
let v45 = wanted(45);
function f46(p) { return p + 46; }
target(47, 'é47');
step48(v47);
let v49 = wanted(49);
function f50(p) { return p + 50; }
target(51, 'é51');
step52(v51);
// note 53
while (cond54) { break; }
if (v53) { fence(55); }
step56(v55);
// note 57
while (cond58) { break; }
if (v57) { fence(59); }
let v60 = wanted(60);
function f61(p) { return p + 61; }
target(62, 'é62');
if (v61) { fence(63); }
let v64 = wanted(64);
function f65(p) { return p + 65; }
target(66, 'é66');
step67(v66);
// note 68
while (cond69) { break; }
target(70, 'é70');
step71(v70);
// note 72
while (cond73) { break; }
if (v72) { fence(74); }
let v75 = wanted(75);
function f76(p) { return p + 76; }
while (cond77) { break; }
if (v76) { fence(78); }
let v79 = wanted(79);
function f80(p) { return p + 80; }
target(81, 'é81');
step82(v81);
// note 83
function f84(p) { return p + 84; }
target(85, 'é85');
step86(v85);
// note 87
while (cond88) { break; }
if (v87) { fence(89); }
let v90 = wanted(90);
// note 91
while (cond92) { break; }
if (v91) { fence(93); }
let v94 = wanted(94);
function f95(p) { return p + 95; }
call(x0, x1, x2, x3, x4, x5, x6, x7, x8, x9, x10, x11, x12, x13, x14, x15, x16, x17, x18, x19, x20, x21, x22, x23, x24, x25, x26, x27, x28, x29, x30, x31, x32, x33, x34, x35, x36, x37, x38, x39);
