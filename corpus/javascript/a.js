// sample module
import { foo, bar as baz } from "./lib";
const é = 1, name = "wörld";
function add(a, b = 2, ...rest) {
  if (a > b) {
    return a + b * rest.length;
  } else if (a === b) {
    return foo(a, b);
  }
  for (let i = 0; i < 10; i++) { console.log(i, `t${i}`); }
  return [a, b, ...rest].map(x => x * 2);
}
class Point extends Base {
  constructor(x, y) { super(); this.x = x; this.y = y; }
  get norm() { return Math.sqrt(this.x ** 2 + this.y ** 2); }
  static of(o) { return new Point(o.x, o?.y ?? 0); }
}
/* block comment */
export default async function run(items) {
  try {
    for (const it of items) { await it.go(); } // trailing
  } catch (e) {
    console.error("failed", e);
  } finally { done(); }
  const obj = { a: 1, 'b': [1, 2, 3], c() { return 1; }, ...items };
  foo(a, b); foo(b, a); foo(a, a); bar(foo(a), foo(a));
  return obj.a ? obj.b[0] : null;
}
