# comment line
import os, sys
from typing import List as L

def add(a, b=2, *args, **kw):
    """doc"""
    if a > b:
        return a + b
    elif a == b:
        return foo(a, b)
    else:
        pass
    for i in range(10):
        print(i, f"t{i}")  # trailing
    return [x * 2 for x in args if x]

class Point(Base):
    x: int = 0
    def __init__(self, x, y):
        super().__init__()
        self.x, self.y = x, y
    @property
    def norm(self):
        return (self.x ** 2 + self.y ** 2) ** 0.5

async def run(items):
    try:
        async with lock as l:
            await items[0].go()
    except (ValueError, KeyError) as e:
        raise RuntimeError("naïve") from e
    finally:
        done()
    d = {"a": 1, "b": [1, 2, 3], **kw}
    foo(a, b); foo(b, a); foo(a, a)
    return d["a"] if d else None
lam = lambda x, y=1: x + y
